//go:build verif

package knx

import (
	"time"

	"github.com/vapourismo/knx-go/knx/cemi"
	"github.com/vapourismo/knx-go/knx/knxnet"
)

// Black-box router environment: the client is built by the real NewRouter / NewGroupRouter; the
// engine redirects knxnet.ListenRouterOnInterface to the harness socket of package knxnet, whose
// datagram writes go to the WriteToUDP stub (bytes, virtual time stamp, optional failure). The
// harnesses below name no unexported field of Router, so refactorings of its internals do not
// break them.

// rmsg builds telegram number i; the destination identifies it after a trip through the encoder.
func rmsg(i int) cemi.Message {
	return &cemi.LDataInd{LData: cemi.LData{
		Control1:    cemi.Control1StdFrame,
		Control2:    cemi.Control2GroupAddr,
		Destination: uint16(100 + i),
		Data:        &cemi.AppData{Command: cemi.GroupValueWrite, Data: []byte{byte(i)}},
	}}
}

// rid recovers the telegram number (-1: not one of ours).
func rid(m cemi.Message) int {
	ld, ok := m.(*cemi.LDataInd)
	if !ok {
		return -1
	}
	return int(ld.Destination) - 100
}

// newRouterEnv creates a router client through its real constructor.
func newRouterEnv(retain uint, pause time.Duration) (*Router, chan knxnet.Service) {
	knxnet.VerifReset("udp")
	r, err := NewRouter("224.0.23.12:3671", RouterConfig{RetainCount: retain, PostSendPauseDuration: pause})
	if err != nil {
		verifFail("env.router_constructor")
	}
	return r, knxnet.VerifInbound
}

// routerSent decodes every datagram the client has written so far.
func routerSent() (ids []int, stamps []int64) {
	for i := 0; i < verifNetWrites(); i++ {
		var srv knxnet.Service
		if _, err := knxnet.Unpack(verifNetWrite(i), &srv); err != nil {
			verifFail("env.router_wrote_undecodable_frame")
		}
		ind, ok := srv.(*knxnet.RoutingInd)
		if !ok {
			verifFail("env.router_wrote_other_service")
		}
		ids = append(ids, rid(ind.Payload))
		stamps = append(stamps, verifNetWriteTime(i))
	}
	return
}
