//go:build verif

package cemi

func init() {
	verifHarnesses["HarnessC01Cemi"] = HarnessC01Cemi
}

// HarnessC01Cemi: a = {message code (or -1: symbolic), L, G}; see knxnet.HarnessC01Unpack.
func HarnessC01Cemi(a []int) {
	code, L, G := a[0], a[1], a[2]
	arr := make([]byte, L+G)
	in := nondetBytes(L)
	garbage := nondetGarbage(G)
	copy(arr, in)
	copy(arr[L:], garbage)
	if code >= 0 && L > 0 {
		arr[0] = byte(code)
	}
	verifRegion(arr, L)
	var msg Message
	n, err := Unpack(arr[:L:L+G], &msg)
	verifObserve("n", n)
	verifObserve("ok", err == nil)
	if err == nil {
		verifCover("C01.accepted")
		verifAssert("C01.consumed_le_len", n <= uint(L))
		verifAssert("C01.value_set", msg != nil)
		verifObserveNative("msg", msg)
		switch m := msg.(type) {
		case *LDataReq:
			verifObserveNative("tpdu", m.Data)
		case *LDataCon:
			verifObserveNative("tpdu", m.Data)
		case *LDataInd:
			verifObserveNative("tpdu", m.Data)
		}
	} else {
		verifCover("C01.rejected")
	}
}
