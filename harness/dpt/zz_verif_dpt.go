//go:build verif

package dpt

import "math"

func init() {
	verifHarnesses["HarnessDptList"] = HarnessDptList
	verifHarnesses["HarnessC08"] = HarnessC08
	verifHarnesses["HarnessC06"] = HarnessC06
}

// dptName renders "main.sub" with the sub-number zero padded to three digits.
func dptName(main, sub int) string {
	digits := func(v int, min int) string {
		var b []byte
		for v > 0 || len(b) < min {
			b = append([]byte{byte('0' + v%10)}, b...)
			v /= 10
		}
		return string(b)
	}
	return digits(main, 1) + "." + digits(sub, 3)
}

// HarnessDptList reports the registered names (used by the driver to enumerate instances).
func HarnessDptList(a []int) {
	names := ListSupportedTypes()
	verifObserve("count", len(names))
	for _, n := range names {
		verifObserve("name", n)
	}
}

// dptWireLen is the payload length the KNX datapoint format prescribes (0 = variable).
func dptWireLen(main int) int {
	switch main {
	case 1:
		return 1
	case 5, 6, 17, 18, 20:
		return 2
	case 7, 8, 9:
		return 3
	case 10, 11, 232:
		return 4
	case 12, 13, 14:
		return 5
	case 242, 251:
		return 7
	case 16:
		return 15
	}
	return 0
}

// dptRange is the documented value range of the float-valued types.
func dptRange(main, sub int) (lo, hi float32, ok bool) {
	switch main {
	case 5:
		switch sub {
		case 1:
			return 0, 100, true
		case 3:
			return 0, 360, true
		}
	case 8:
		switch sub {
		case 3, 10:
			return -327.68, 327.67, true
		case 4:
			return -3276.8, 3276.7, true
		}
	case 9:
		switch sub {
		case 1:
			return -273, 670760, true
		case 27:
			return -459.6, 670760, true
		case 4, 5, 6, 7, 8, 28, 29:
			return 0, 670760, true
		}
		return -670760, 670760, true
	}
	return 0, 0, false
}

func c08ValidDate(y, m, d int) bool {
	if y < 1990 || y > 2089 || m < 1 || m > 12 || d < 1 {
		return false
	}
	dim := 31
	switch m {
	case 4, 6, 9, 11:
		dim = 30
	case 2:
		dim = 28
		if y%4 == 0 && (y%100 != 0 || y%400 == 0) {
			dim = 29
		}
	}
	return d <= dim
}

// HarnessC08: a = {main, sub, L}: every byte string of length L handed to the type's decoder.
func HarnessC08(a []int) {
	main, sub, L := a[0], a[1], a[2]
	d, ok := Produce(dptName(main, sub))
	verifAssert("C08.produce", ok)
	data := nondetBytes(L)
	err := d.Unpack(data)
	verifObserve("accepted", err == nil)
	if err != nil {
		verifCover("C08.reject")
		return
	}
	verifCover("C08.accept")
	if main == 28 {
		verifAssert("C08.len.variable", L >= 2)
	} else {
		verifAssert("C08.len.fixed", L == dptWireLen(main))
	}
	if lo, hi, ok := dptRange(main, sub); ok {
		v := verifGetF32(d)
		verifAssert("C08.range.float", v >= lo && v <= hi)
	}
	switch x := d.(type) {
	case *DPT_10001:
		verifAssert("C08.range.time", x.Weekday <= 7 && x.Hour <= 23 && x.Minutes <= 59 && x.Seconds <= 59)
	case *DPT_11001:
		verifAssert("C08.range.date", c08ValidDate(int(x.Year), int(x.Month), int(x.Day)))
	case *DPT_17001:
		verifAssert("C08.range.scene", *x < 64)
	case *DPT_18001:
		verifAssert("C08.range.scenectl", *x <= 63 || (*x >= 128 && *x <= 191))
	}
	_ = d.String()
	_ = d.Unit()
}

// c06Mask is the mask of payload bits that survive a decode/encode cycle byte-identically
// for the exact formats (0 entries = format not claimed byte-identical).
func c06Mask(main, sub, i, L int, data []byte) (mask byte, exact bool) {
	switch main {
	case 1:
		return 0x01, true
	case 5:
		if sub == 1 || sub == 3 {
			return 0, false
		}
	case 8:
		if sub == 3 || sub == 4 || sub == 10 {
			return 0, false
		}
	case 9:
		return 0, false
	case 17, 18:
		return 0, false // documented replacement, compared separately
	case 10:
		return [4]byte{0, 0xFF, 0x3F, 0x3F}[i], true
	case 11:
		return 0, false // 0/0/0 replacement, compared separately
	case 16:
		return 0, false // bytes after the first NUL are dropped; compared at value level
	case 28:
		if i == 0 || i == L-1 {
			return 0, true
		}
		return 0xFF, true
	case 242:
		return [7]byte{0, 0xFF, 0xFF, 0xFF, 0xFF, 0xFF, 0x03}[i], true
	case 251:
		return [7]byte{0, 0xFF, 0xFF, 0xFF, 0xFF, 0x00, 0x0F}[i], true
	}
	if i == 0 {
		return 0, true
	}
	return 0xFF, true
}

// HarnessC06: a = {main, sub, L}: decode, re-encode, decode again.
func HarnessC06(a []int) {
	main, sub, L := a[0], a[1], a[2]
	name := dptName(main, sub)
	d1, ok := Produce(name)
	verifAssert("C06.produce", ok)
	data := nondetBytes(L)
	if len(a) > 3 && a[3] >= 0 && L == 3 {
		// case split of the two-octet float by its exponent field
		data[1] = data[1]&0x87 | byte(a[3])<<3
	}
	if d1.Unpack(data) != nil {
		verifCover("C06.rejected")
		return
	}
	verifCover("C06.accepted")
	// the decoded value is the instance's own: overwriting the payload it was decoded from (a reused
	// receive buffer) does not change it
	in := append([]byte(nil), data...)
	for i := range data {
		data[i] = ^data[i]
	}
	data = in
	b2 := d1.Pack()
	// an encoding handed out is the caller's: writing into it does not change a later encoding
	snap := append([]byte(nil), b2...)
	for i := range b2 {
		b2[i] = ^b2[i]
	}
	if main != 9 || sub == 1 {
		// (the twenty 9.xxx types share one coder; its second run is explored for 9.001 only)
		b3 := d1.Pack()
		verifAssert("C06.encoding_independent.len", len(b3) == len(snap))
		for i := range snap {
			verifAssert("C06.encoding_independent.byte", b3[i] == snap[i])
		}
	}
	b2 = snap
	d2, _ := Produce(name)
	err := d2.Unpack(b2)
	verifObserve("len2", len(b2))
	verifAssert("C06.reencoded_accepted", err == nil)
	verifAssert("C06.same_value", verifSame(d1, d2))
	if _, exact := c06Mask(main, sub, 0, L, data); exact {
		verifAssert("C06.exact.len", len(b2) == L)
		for i := 0; i < L; i++ {
			m, _ := c06Mask(main, sub, i, L, data)
			verifAssert("C06.exact.byte", b2[i] == data[i]&m)
		}
	}
	switch main {
	case 17:
		want := data[1]
		if want > 63 {
			want = 63
		}
		verifAssert("C06.replaced.scene", len(b2) == 2 && b2[0] == 0 && b2[1] == want)
	case 18:
		want := data[1]
		if !(want <= 63 || (want >= 128 && want <= 191)) {
			want = 63
		}
		verifAssert("C06.replaced.scenectl", len(b2) == 2 && b2[0] == 0 && b2[1] == want)
	case 11:
		dd, mm, yy := data[1]&0x1F, data[2]&0x0F, data[3]&0x7F
		if dd == 0 && mm == 0 && yy == 0 {
			dd, mm, yy = 1, 1, 90
		}
		verifAssert("C06.replaced.date", len(b2) == 4 && b2[0] == 0 && b2[1] == dd && b2[2] == mm && b2[3] == yy)
	}
	_ = math.Pi
}

func init() {
	verifHarnesses["HarnessC07Float"] = HarnessC07Float
	verifHarnesses["HarnessC07Mono"] = HarnessC07Mono
	verifHarnesses["HarnessC07Int"] = HarnessC07Int
	verifHarnesses["HarnessC07Struct"] = HarnessC07Struct
	verifHarnesses["HarnessC07String"] = HarnessC07String
	verifHarnesses["HarnessC07F32"] = HarnessC07F32
}

func c07Finite(bits uint32) bool { return bits&0x7F800000 != 0x7F800000 }

// c07Step is the quantisation step of the type's wire format for the produced encoding.
func c07Step(main, sub int, enc []byte) float64 {
	switch main {
	case 5:
		if sub == 1 {
			return 100.0 / 255
		}
		return 360.0 / 255
	case 8:
		if sub == 4 {
			return 0.1
		}
		return 0.01
	case 9:
		e := (enc[1] >> 3) & 15
		return 0.01 * float64(uint(1)<<e)
	}
	return 0
}

func c07EncDec(name string, x float32) (enc []byte, y float32, ok bool) {
	d, _ := Produce(name)
	verifSetF32(d, x)
	enc = d.Pack()
	d2, _ := Produce(name)
	ok = d2.Unpack(enc) == nil
	y = verifGetF32(d2)
	return
}

// HarnessC07Float: a = {main, sub}: accuracy, saturation, shape, self-decodability for
// every finite float32.
func HarnessC07Float(a []int) {
	main, sub := a[0], a[1]
	name := dptName(main, sub)
	lo, hi, _ := dptRange(main, sub)
	xb := nondetU32()
	verifAssume(c07Finite(xb))
	x := math.Float32frombits(xb)
	if len(a) > 2 && a[2] == 1 {
		verifAssume(x > hi || x < lo) // out-of-range half only (cheap: the clamps make the encoding concrete)
	}
	enc, y, ok := c07EncDec(name, x)
	verifAssert("C07.shape.len", len(enc) == dptWireLen(main))
	verifAssert("C07.shape.lead", enc[0] == 0)
	verifAssert("C07.selfdecodable", ok)
	switch {
	case x > hi:
		verifCover("C07.above")
		ehi, yhi, _ := c07EncDec(name, hi)
		verifAssert("C07.saturates.high", y == yhi)
		// the bound itself is encoded accurately (otherwise the comparison above is self-referential)
		dh := float64(yhi) - float64(hi)
		th := c07Step(main, sub, ehi) * (1 + 1.0/1024)
		verifAssert("C07.saturates.high_is_bound", dh <= th && -dh <= th)
	case x < lo:
		verifCover("C07.below")
		elo, ylo, _ := c07EncDec(name, lo)
		verifAssert("C07.saturates.low", y == ylo)
		dl := float64(ylo) - float64(lo)
		tl := c07Step(main, sub, elo) * (1 + 1.0/1024)
		verifAssert("C07.saturates.low_is_bound", dl <= tl && -dl <= tl)
	default:
		verifCover("C07.inrange")
		diff := float64(y) - float64(x)
		tol := c07Step(main, sub, enc) * (1 + 1.0/1024)
		verifAssert("C07.accuracy", diff <= tol && -diff <= tol)
		if main == 9 && len(a) > 2 && a[2] == 2 {
			// (instances with a[2] = 2) the step "at that magnitude" taken from the value itself, not from the exponent the
			// encoder happened to choose: the smallest exponent whose mantissa range holds |x|
			ax := float64(x) * 100
			if ax < 0 {
				ax = -ax
			}
			ref := 0.01
			for e := 1; e <= 15; e++ {
				if ax > 2047*float64(uint(1)<<uint(e-1)) {
					ref = 0.01 * float64(uint(1)<<uint(e))
				}
			}
			ref *= 1 + 1.0/1024
			verifAssert("C07.accuracy_at_magnitude", diff <= ref && -diff <= ref)
		}
	}
	verifObserve("y", y)
}

// HarnessC07Mono: a = {main, sub}: adjacent-float lemma. For every finite x and its successor
// x+ in float order, dec(enc(x)) <= dec(enc(x+)); chaining gives monotonicity for all pairs.
func HarnessC07Mono(a []int) {
	main, sub := a[0], a[1]
	name := dptName(main, sub)
	xb := nondetU32()
	verifAssume(c07Finite(xb))
	var nb uint32
	switch {
	case xb == 0x80000000: // -0 -> +0
		nb = 0
	case xb&0x80000000 != 0:
		nb = xb - 1
	default:
		nb = xb + 1
	}
	verifAssume(c07Finite(nb))
	x, xn := math.Float32frombits(xb), math.Float32frombits(nb)
	_, y, _ := c07EncDec(name, x)
	_, yn, _ := c07EncDec(name, xn)
	verifAssert("C07.monotonic", y <= yn)
	verifCover("C07.mono.end")
	verifObserve("y", y)
	verifObserve("yn", yn)
}

// HarnessC07Int: a = {main, sub}: integer, boolean and enumeration types.
func HarnessC07Int(a []int) {
	main, sub := a[0], a[1]
	name := dptName(main, sub)
	d, _ := Produce(name)
	v := nondetU64()
	verifSetU64(d, v)
	enc := d.Pack()
	verifAssert("C07.shape.len", len(enc) == dptWireLen(main))
	if main == 1 {
		verifAssert("C07.shape.low6", enc[0]&0xC0 == 0)
	} else {
		verifAssert("C07.shape.lead", enc[0] == 0)
	}
	d2, _ := Produce(name)
	verifAssert("C07.selfdecodable", d2.Unpack(enc) == nil)
	got, want := verifGetU64(d2), verifGetU64(d)
	switch main {
	case 17:
		if want > 63 {
			want = 63
		}
	case 18:
		if !(want <= 63 || (want >= 128 && want <= 191)) {
			want = 63
		}
	}
	verifAssert("C07.exact", got == want)
	verifCover("C07.int.end")
	verifObserve("got", got)
}

// HarnessC07Struct: a = {main}: structured types with every field value, valid or not.
func HarnessC07Struct(a []int) {
	main := a[0]
	var enc []byte
	switch main {
	case 10:
		d := DPT_10001{Weekday: nondetU8(), Hour: nondetU8(), Minutes: nondetU8(), Seconds: nondetU8()}
		enc = d.Pack()
		valid := d.Weekday <= 7 && d.Hour <= 23 && d.Minutes <= 59 && d.Seconds <= 59
		var d2 DPT_10001
		verifAssert("C07.selfdecodable", d2.Unpack(enc) == nil)
		if valid {
			verifCover("C07.struct.valid")
			verifAssert("C07.exact", d2 == d)
		} else {
			verifCover("C07.struct.invalid")
			verifAssert("C07.invalid.zero", enc[1] == 0 && enc[2] == 0 && enc[3] == 0)
		}
	case 11:
		d := DPT_11001{Year: nondetU16(), Month: nondetU8(), Day: nondetU8()}
		enc = d.Pack()
		valid := c08ValidDate(int(d.Year), int(d.Month), int(d.Day))
		var d2 DPT_11001
		verifAssert("C07.selfdecodable", d2.Unpack(enc) == nil)
		if valid {
			verifCover("C07.struct.valid")
			verifAssert("C07.exact", d2 == d)
		} else {
			verifCover("C07.struct.invalid")
			verifAssert("C07.invalid.zero", enc[1] == 0 && enc[2] == 0 && enc[3] == 0)
		}
	case 232:
		d := DPT_232600{Red: nondetU8(), Green: nondetU8(), Blue: nondetU8()}
		enc = d.Pack()
		var d2 DPT_232600
		verifAssert("C07.selfdecodable", d2.Unpack(enc) == nil)
		verifAssert("C07.exact", d2 == d)
		verifCover("C07.struct.valid")
	case 242:
		d := DPT_242600{X: nondetU16(), Y: nondetU16(), YBrightness: nondetU8(), ColorValid: nondetBool(), BrightnessValid: nondetBool()}
		enc = d.Pack()
		var d2 DPT_242600
		verifAssert("C07.selfdecodable", d2.Unpack(enc) == nil)
		verifAssert("C07.exact", d2 == d)
		verifCover("C07.struct.valid")
	case 251:
		d := DPT_251600{Red: nondetU8(), Green: nondetU8(), Blue: nondetU8(), White: nondetU8(),
			RedValid: nondetBool(), GreenValid: nondetBool(), BlueValid: nondetBool(), WhiteValid: nondetBool()}
		enc = d.Pack()
		var d2 DPT_251600
		verifAssert("C07.selfdecodable", d2.Unpack(enc) == nil)
		verifAssert("C07.exact", d2 == d)
		verifCover("C07.struct.valid")
	}
	verifAssert("C07.shape.len", len(enc) == dptWireLen(main))
	verifAssert("C07.shape.lead", enc[0] == 0)
	verifObserve("b1", enc[1])
}

// HarnessC07F32: a = {main, sub}: IEEE-754 types: shape and bit-exact self-decoding for every bit pattern.
func HarnessC07F32(a []int) {
	name := dptName(a[0], a[1])
	xb := nondetU32()
	d, _ := Produce(name)
	verifSetF32(d, math.Float32frombits(xb))
	enc := d.Pack()
	verifAssert("C07.shape.len", len(enc) == 5)
	verifAssert("C07.shape.lead", enc[0] == 0)
	verifAssert("C07.f32.bits", uint32(enc[1])<<24|uint32(enc[2])<<16|uint32(enc[3])<<8|uint32(enc[4]) == xb)
	d2, _ := Produce(name)
	verifAssert("C07.selfdecodable", d2.Unpack(enc) == nil)
	verifAssert("C07.exact", math.Float32bits(verifGetF32(d2)) == xb)
	verifCover("C07.int.end")
}

// HarnessC07String: a = {main, sub, runes, i, j}: text types; the runes at positions i and j
// (all positions when i < 0) are fully symbolic (ASCII, Latin-1, beyond, NUL, invalid),
// the others are the letter 'a'.
func HarnessC07String(a []int) {
	main, sub, n := a[0], a[1], a[2]
	rs := make([]rune, n)
	for i := range rs {
		if a[3] < 0 || i == a[3] || i == a[4] {
			rs[i] = rune(nondetU32() & 0x1FFFFF)
		} else {
			rs[i] = 'a'
		}
	}
	switch {
	case main == 16:
		var enc []byte
		limit := rune(0x7F)
		if sub == 0 {
			enc = DPT_16000(string(rs)).Pack()
		} else {
			enc = DPT_16001(string(rs)).Pack()
			limit = 0xFF
		}
		verifAssert("C07.shape.len", len(enc) == 15)
		verifAssert("C07.shape.lead", enc[0] == 0)
		for i := 0; i < 14; i++ {
			var want byte
			if i < n {
				r := rs[i]
				if r >= 0xD800 && r <= 0xDFFF || r > 0x10FFFF {
					r = 0xFFFD // what string([]rune) makes of an invalid code point
				}
				if r > limit {
					want = 0x20
				} else {
					want = byte(r)
				}
			}
			verifAssert("C07.string.byte", enc[i+1] == want)
		}
		if sub == 0 {
			var d2 DPT_16000
			verifAssert("C07.selfdecodable", d2.Unpack(enc) == nil)
		} else {
			var d2 DPT_16001
			verifAssert("C07.selfdecodable", d2.Unpack(enc) == nil)
		}
	case main == 28:
		bs := make([]byte, n)
		for i := range bs {
			bs[i] = byte(rs[i])
		}
		enc := DPT_28001(string(bs)).Pack()
		verifAssert("C07.shape.len", len(enc) == n+2)
		verifAssert("C07.shape.lead", enc[0] == 0 && enc[n+1] == 0)
		for i := range bs {
			verifAssert("C07.string.byte", enc[i+1] == bs[i])
		}
		var d2 DPT_28001
		verifAssert("C07.selfdecodable", d2.Unpack(enc) == nil)
		verifAssert("C07.exact", string(d2) == string(bs))
	}
	verifCover("C07.string.end")
}

func init() {
	verifHarnesses["HarnessStubCalendar"] = HarnessStubCalendar
}

// HarnessStubCalendar validates the engine's time.Date stub against the real package time: the
// stub is exact on valid civil dates and yields a different date on invalid ones, which is all
// DPT_11001.IsValid observes. Natively this loops over every (year 1985..2095, month 0..255, day
// 0..255) plus century/leap corners and the corners of the uint16 year range; under the engine it is a no-op, so the
// comparison runs as part of the native validation of this harness' sample path.
func HarnessStubCalendar(a []int) {
	if !verifNative() {
		verifCover("stub.calendar")
		return
	}
	check := func(y int) {
		for m := 0; m < 256; m++ {
			for d := 0; d < 256; d++ {
				v := DPT_11001{Year: uint16(y), Month: uint8(m), Day: uint8(d)}
				want := c08ValidDate(y, m, d)
				if v.IsValid() != want {
					verifFail("stub.calendar.mismatch")
				}
			}
		}
	}
	for y := 1985; y <= 2095; y++ {
		check(y)
	}
	for _, y := range []int{0, 1, 4, 100, 400, 1600, 1700, 9999, 10000, 32767, 32768, 65535} {
		check(y)
	}
	verifCover("stub.calendar")
}
