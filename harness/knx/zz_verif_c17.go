//go:build verif

package knx

import (
	"github.com/vapourismo/knx-go/knx/cemi"
	"github.com/vapourismo/knx-go/knx/knxnet"
)

func init() {
	verifHarnesses["HarnessC17"] = HarnessC17
}

// HarnessC17: a = {client: 0 tunnel, 1 router, 2 group layer, 3 tunnel through handleTunnelReq (UDP),
// 4 the same in TCP mode, 5/6 a tunnel client built by the real NewTunnel (UDP/TCP) fed through its
// socket; k telegrams; consumer: 0 always
// waiting, 1 absent during the burst, 2 takes one telegram then stalls, 3 takes one telegram, stalls and resumes
// in the middle of the burst}. The server side
// accepts m1..mk in order; the application must see them in that order.
func HarnessC17(a []int) {
	client, k, mode := a[0], a[1], a[2]
	msgs := make([]cemi.Message, k)
	for i := range msgs {
		msgs[i] = &cemi.LDataInd{LData: cemi.LData{Control2: cemi.Control2GroupAddr, Destination: uint16(i + 1),
			Data: &cemi.AppData{Command: cemi.GroupValueWrite, Data: []byte{byte(i)}}}}
	}
	var order []int
	gate := make(chan struct{})
	var inbound <-chan cemi.Message
	var push func(cemi.Message)
	switch client {
	case 0:
		conn := vTunnel(newVSock(), false)
		inbound, push = conn.inbound, conn.pushInbound
	case 1:
		// the real client behind its constructor: indications enter through the socket, the real
		// serve loop hands them on (no unexported field of Router is named here)
		r, in := newRouterEnv(2, 0)
		inbound = r.Inbound()
		push = func(m cemi.Message) { in <- &knxnet.RoutingInd{Payload: m} }
	case 3, 4:
		conn := vTunnel(newVSock(), client == 4)
		conn.channel = 9
		var seq uint8
		inbound = conn.inbound
		push = func(m cemi.Message) {
			conn.handleTunnelReq(&knxnet.TunnelReq{Channel: 9, SeqNumber: seq, Payload: m}, &seq)
		}
	case 5, 6:
		// the real tunnel client behind its constructor (5 UDP, 6 TCP): requests enter through the socket
		conn, g, c := newBBTunnel(client == 6)
		var seq uint8
		inbound = conn.Inbound()
		push = func(m cemi.Message) {
			g.in <- &knxnet.TunnelReq{Channel: c, SeqNumber: seq, Payload: m}
			seq++
		}
	default:
		ch := make(chan cemi.Message)
		inbound = ch
		push = func(m cemi.Message) { ch <- m }
	}
	consume := func(next func() (int, bool)) {
		verifDaemon()
		n := 0
		for {
			if mode == 1 || ((mode == 2 || mode == 3) && n == 1) {
				<-gate // stalled until the burst is over (mode 3: until the server is half way through)
			}
			id, ok := next()
			if !ok {
				return
			}
			order = append(order, id)
			n++
		}
	}
	if client == 2 {
		events := make(chan GroupEvent)
		go serveGroupInbound(inbound, events)
		go consume(func() (int, bool) {
			ev, ok := <-events
			return int(ev.Destination), ok
		})
	} else {
		go consume(func() (int, bool) {
			m, ok := <-inbound
			if !ok {
				return 0, false
			}
			return int(m.(*cemi.LDataInd).Destination), true
		})
	}
	if client == 2 {
		go func() {
			for _, m := range msgs {
				push(m)
			}
		}()
		if mode != 0 {
			verifQuiesce()
		}
	} else {
		for i, m := range msgs {
			if mode == 3 && i == (k+1)/2 {
				close(gate)
			}
			push(m)
		}
	}
	if !(mode == 3 && client != 2) {
		close(gate)
	}
	verifQuiesce()
	verifAssert("C17.all_delivered", len(order) == k)
	for i, id := range order {
		switch {
		case client == 2:
			verifAssert("C17.group.order", id == i+1)
		case mode == 0:
			verifAssert("C17.ready.order", id == i+1)
		case client == 0 || client == 3 || client == 4 || client == 5 || client == 6:
			verifAssert("C17.tunnel.stalled.order", id == i+1)
		default:
			verifAssert("C17.router.stalled.order", id == i+1)
		}
	}
	verifCover("C17.end")
}
