//go:build verif

package knx

import (
	"github.com/vapourismo/knx-go/knx/cemi"
	"github.com/vapourismo/knx-go/knx/knxnet"
)

func init() {
	verifHarnesses["HarnessC05Out"] = HarnessC05Out
	verifHarnesses["HarnessC05In"] = HarnessC05In
}

// HarnessC05Out: a = {telegrams (1..3), fault budget}: the real sender against a gateway that
// follows the tunnelling rules (accept the expected number, re-acknowledge the previous one,
// ignore others) behind a network that loses or duplicates datagrams in either direction
// (bounded by the fault budget; a duplicate that is delivered late models delay/reordering).
// The sequence number at which the run starts is symbolic, so the wrap is included.
func HarnessC05Out(a []int) {
	n, faults := a[0], a[1]
	sock := newVSock()
	conn := vTunnel(sock, false)
	s, c := nondetU8(), nondetU8()
	conn.seqNumber, conn.channel = s, c
	frames := make(chan *knxnet.TunnelReq, 64)
	sock.onSend = func(p knxnet.ServicePackable) {
		if r, ok := p.(*knxnet.TunnelReq); ok {
			frames <- r
		}
	}
	var bus []cemi.Message
	go func() { // network + gateway
		verifDaemon()
		r := s
		var held *knxnet.TunnelReq // a delayed copy of an earlier request
		gateway := func(f *knxnet.TunnelReq) {
			switch {
			case f.SeqNumber == r:
				bus = append(bus, f.Payload)
				r++
			case f.SeqNumber == r-1:
			default:
				return
			}
			k := 0
			if faults > 0 {
				k = nondetChoice(3)
			}
			switch k {
			case 1: // acknowledgement lost
				faults--
				return
			case 2: // acknowledgement duplicated
				faults--
				conn.handleTunnelRes(&knxnet.TunnelRes{Channel: c, SeqNumber: f.SeqNumber})
			}
			conn.handleTunnelRes(&knxnet.TunnelRes{Channel: c, SeqNumber: f.SeqNumber})
		}
		for f := range frames {
			k := 0
			if faults > 0 {
				k = nondetChoice(4)
			}
			switch k {
			case 1: // request lost
				faults--
				continue
			case 2: // request duplicated, the copy is delayed
				faults--
				held = f
			case 3: // a delayed copy overtakes this request
				if held != nil {
					faults--
					gateway(held)
					held = nil
				}
			}
			gateway(f)
		}
	}()
	okMsgs := []cemi.Message{}
	timedOut := false
	for i := 0; i < n; i++ {
		m := c04Msgs[i]
		err := conn.Send(m)
		verifQuiesce()
		if err == nil {
			cnt := 0
			for _, b := range bus {
				if b == m {
					cnt++
				}
			}
			if timedOut {
				verifCover("C05.out.after_timeout")
				verifAssert("C05.out.success_implies_forwarded.after_timed_out_send", cnt == 1)
			} else {
				verifAssert("C05.out.success_implies_forwarded", cnt == 1)
			}
			okMsgs = append(okMsgs, m)
		} else {
			timedOut = true
		}
	}
	for i, x := range bus {
		for j := i + 1; j < len(bus); j++ {
			verifAssert("C05.out.never_forwarded_twice", bus[j] != x)
		}
	}
	// successful telegrams appear on the bus in the order their Sends completed
	pos := -1
	for _, m := range okMsgs {
		for i, b := range bus {
			if b == m {
				if timedOut {
					verifAssert("C05.out.order.after_timed_out_send", i > pos)
				} else {
					verifAssert("C05.out.order", i > pos)
				}
				pos = i
			}
		}
	}
	verifObserve("bus", len(bus))
	verifCover("C05.out.end")
}

// HarnessC05In: a = {telegrams (1..3), fault budget}: a rule-following gateway repeats each
// request until it obtains the acknowledgement (at most 3 tries, then it gives up), behind a
// network that loses or duplicates; the real process() goroutine and a reader on the client side.
func HarnessC05In(a []int) {
	n, faults := a[0], a[1]
	sock := newVSock()
	conn := vTunnel(sock, false)
	c := nondetU8()
	conn.channel = c
	acks := make(chan *knxnet.TunnelRes, 64)
	sock.onSend = func(p knxnet.ServicePackable) {
		if r, ok := p.(*knxnet.TunnelRes); ok {
			acks <- r
		}
	}
	var got []cemi.Message
	go func() {
		verifDaemon()
		for m := range conn.inbound {
			got = append(got, m)
		}
	}()
	go conn.process()
	var acked []cemi.Message
	var g uint8
gateway:
	for i := 0; i < n; i++ {
		m := c04Msgs[i]
		for try := 0; ; try++ {
			if try == 3 {
				break gateway // the gateway gives up: connection ends
			}
			req := &knxnet.TunnelReq{Channel: c, SeqNumber: g, Payload: m}
			k := 0
			if faults > 0 {
				k = nondetChoice(3)
			}
			switch k {
			case 1: // request lost
				faults--
			case 2: // request duplicated
				faults--
				sock.in <- req
				sock.in <- req
			default:
				sock.in <- req
			}
			verifQuiesce()
			seen := false
			for len(acks) > 0 {
				r := <-acks
				lost := false
				if faults > 0 && nondetChoice(2) == 1 {
					faults--
					lost = true
				}
				if !lost && r.Channel == c && r.SeqNumber == g && r.Status == 0 {
					seen = true
				}
			}
			if seen {
				acked = append(acked, m)
				g++
				break
			}
		}
	}
	verifQuiesce()
	// every telegram the gateway got acknowledged was accepted exactly once, in the gateway's order
	pos := -1
	for _, m := range acked {
		cnt := 0
		for i, x := range got {
			if x == m {
				cnt++
				verifAssert("C05.in.order", i > pos)
				pos = i
			}
		}
		verifAssert("C05.in.acked_implies_accepted_once", cnt == 1)
	}
	for i, x := range got {
		for j := i + 1; j < len(got); j++ {
			verifAssert("C05.in.never_accepted_twice", got[j] != x)
		}
	}
	close(conn.done)
	verifObserve("acked", len(acked))
	verifCover("C05.in.end")
}
