package main

var specs = map[string]*Spec{}

func reg(s *Spec) { specs[s.ID] = s }

func init() {
	reg(&Spec{
		ID: "C11",
		Quick: func() []Inst {
			return []Inst{{Pkg: "cemi", Fn: "HarnessC11Helpers"}}
		},
		Covers: []string{"C11.helpers.end"},
	})
}
