// Package smt drives an SMT solver process (z3 -in, z3-new -in, cvc5
// --incremental) over a pipe.
package smt

import (
	"bufio"
	"fmt"
	"io"
	"os/exec"
	"strconv"
	"strings"
	"time"

	"kv/term"
)

type Result int

const (
	Sat Result = iota
	Unsat
	Unknown
)

func (r Result) String() string { return [...]string{"sat", "unsat", "unknown"}[r] }

type Solver struct {
	Name      string
	cmd       *exec.Cmd
	in        io.WriteCloser
	out       *bufio.Reader
	emitted   map[int]bool
	declared  map[string]term.Sort
	declOrder []string
	scopes    []scope
	Queries   int
	Time      time.Duration
	Errors    int
	errBase   int
	LastErr   string
	Log       io.Writer
	TimeoutMs int
}

type scope struct {
	emitted  []int
	declared []string
}

func command(name string, timeoutMs int) []string {
	switch name {
	case "z3":
		return []string{"z3", "-in", fmt.Sprintf("-t:%d", timeoutMs)}
	case "z3-new":
		return []string{"z3-new", "-in", fmt.Sprintf("-t:%d", timeoutMs)}
	case "cvc5":
		return []string{"cvc5", "--incremental", "--lang=smt2", "--produce-models", fmt.Sprintf("--tlimit-per=%d", timeoutMs)}
	}
	panic("unknown solver " + name)
}

func Start(name string, timeoutMs int) (*Solver, error) {
	args := command(name, timeoutMs)
	cmd := exec.Command(args[0], args[1:]...)
	in, err := cmd.StdinPipe()
	if err != nil {
		return nil, err
	}
	outp, err := cmd.StdoutPipe()
	if err != nil {
		return nil, err
	}
	cmd.Stderr = cmd.Stdout
	if err := cmd.Start(); err != nil {
		return nil, err
	}
	s := &Solver{Name: name, cmd: cmd, in: in, out: bufio.NewReaderSize(outp, 1<<20),
		emitted: map[int]bool{}, declared: map[string]term.Sort{}, TimeoutMs: timeoutMs}
	s.send("(set-option :produce-models true)")
	if name == "cvc5" {
		s.send("(set-logic ALL)")
	}
	return s, nil
}

func (s *Solver) Close() {
	if s == nil || s.cmd == nil {
		return
	}
	s.in.Close()
	s.cmd.Process.Kill()
	s.cmd.Wait()
	s.cmd = nil
}

func (s *Solver) send(line string) {
	if s.Log != nil {
		fmt.Fprintln(s.Log, line)
	}
	io.WriteString(s.in, line)
	io.WriteString(s.in, "\n")
}

func (s *Solver) readLine() string {
	l, err := s.out.ReadString('\n')
	if err != nil && l == "" {
		return "(error \"solver pipe closed\")"
	}
	return strings.TrimSpace(l)
}

func (s *Solver) Push() {
	s.send("(push 1)")
	s.scopes = append(s.scopes, scope{})
}

func (s *Solver) Pop() {
	s.send("(pop 1)")
	sc := s.scopes[len(s.scopes)-1]
	s.scopes = s.scopes[:len(s.scopes)-1]
	for _, id := range sc.emitted {
		delete(s.emitted, id)
	}
	for _, n := range sc.declared {
		delete(s.declared, n)
	}
	if len(s.scopes) == 0 {
		s.errBase = s.Errors
	}
	if len(sc.declared) > 0 {
		k := s.declOrder[:0]
		for _, n := range s.declOrder {
			if _, ok := s.declared[n]; ok {
				k = append(k, n)
			}
		}
		s.declOrder = k
	}
}

// Reset clears the solver completely.
func (s *Solver) Reset() {
	s.send("(reset)")
	s.send("(set-option :produce-models true)")
	if s.Name == "cvc5" {
		s.send("(set-logic ALL)")
	}
	s.emitted = map[int]bool{}
	s.declared = map[string]term.Sort{}
	s.declOrder = nil
	s.scopes = nil
	s.errBase = s.Errors
}

// Define makes sure the term and all its sub-terms are defined in the current scope.
func (s *Solver) Define(t *term.T) {
	switch t.Op {
	case term.OpConst:
		return
	case term.OpVar:
		if _, ok := s.declared[t.Name]; !ok {
			s.send(fmt.Sprintf("(declare-const %s %s)", t.Name, t.Sort.SMT()))
			s.declared[t.Name] = t.Sort
			s.declOrder = append(s.declOrder, t.Name)
			if n := len(s.scopes); n > 0 {
				s.scopes[n-1].declared = append(s.scopes[n-1].declared, t.Name)
			}
		}
		return
	}
	if s.emitted[t.ID] {
		return
	}
	// iterative post-order to avoid deep recursion on long chains
	type fr struct {
		t *term.T
		i int
	}
	st := []fr{{t, 0}}
	for len(st) > 0 {
		f := &st[len(st)-1]
		if f.i < len(f.t.Args) {
			a := f.t.Args[f.i]
			f.i++
			if a.Op == term.OpConst {
				continue
			}
			if a.Op == term.OpVar {
				s.Define(a)
				continue
			}
			if !s.emitted[a.ID] {
				st = append(st, fr{a, 0})
			}
			continue
		}
		if !s.emitted[f.t.ID] {
			s.send(fmt.Sprintf("(define-fun t%d () %s %s)", f.t.ID, f.t.Sort.SMT(), term.Body(f.t)))
			s.emitted[f.t.ID] = true
			if n := len(s.scopes); n > 0 {
				s.scopes[n-1].emitted = append(s.scopes[n-1].emitted, f.t.ID)
			}
		}
		st = st[:len(st)-1]
	}
}

func (s *Solver) Assert(t *term.T) {
	s.Define(t)
	s.send(fmt.Sprintf("(assert %s)", term.Ref(t)))
}

// Check runs check-sat; on sat the model of all declared variables is returned.
func (s *Solver) Check() (Result, term.Model) {
	t0 := time.Now()
	s.Queries++
	s.send("(check-sat)")
	var res Result
	for {
		l := s.readLine()
		if l == "" {
			continue
		}
		switch {
		case l == "sat":
			res = Sat
		case l == "unsat":
			res = Unsat
		case l == "unknown" || l == "timeout":
			res = Unknown
		case strings.HasPrefix(l, "(error"):
			s.Errors++
			s.LastErr = l
			if strings.Contains(l, "pipe closed") {
				s.Time += time.Since(t0)
				return Unknown, nil
			}
			continue
		default:
			// unexpected chatter (warnings): skip
			if strings.HasPrefix(l, "WARNING") || strings.HasPrefix(l, ";") {
				continue
			}
			s.Errors++
			s.LastErr = l
			continue
		}
		break
	}
	var m term.Model
	if res == Sat {
		m = s.getModel()
	}
	s.Time += time.Since(t0)
	if s.Errors > s.errBase {
		// an (error line means the solver may have dropped an assertion:
		// nothing it answers in this scope is believed
		return Unknown, nil
	}
	return res, m
}

func (s *Solver) getModel() term.Model {
	m := term.Model{}
	if len(s.declOrder) == 0 {
		return m
	}
	var sb strings.Builder
	sb.WriteString("(get-value (")
	for _, n := range s.declOrder {
		sb.WriteString(n)
		sb.WriteString(" ")
	}
	sb.WriteString("))")
	s.send(sb.String())
	// read balanced s-expression
	var txt strings.Builder
	depth := 0
	started := false
	for {
		l := s.readLine()
		if strings.HasPrefix(l, "(error") {
			s.Errors++
			s.LastErr = l
			return m
		}
		for _, ch := range l {
			if ch == '(' {
				depth++
				started = true
			} else if ch == ')' {
				depth--
			}
		}
		txt.WriteString(l)
		txt.WriteString(" ")
		if started && depth == 0 {
			break
		}
	}
	toks := tokenize(txt.String())
	// pattern: ( ( name value ) ( name value ) ... ) where value is #x.., #b.., true, false
	for i := 0; i+1 < len(toks); i++ {
		if toks[i] == "(" && i+2 < len(toks) && toks[i+1] != "(" {
			name := toks[i+1]
			val := toks[i+2]
			if v, ok := parseVal(val); ok {
				m[name] = v
			}
		}
	}
	return m
}

func tokenize(s string) []string {
	s = strings.ReplaceAll(s, "(", " ( ")
	s = strings.ReplaceAll(s, ")", " ) ")
	return strings.Fields(s)
}

func parseVal(v string) (uint64, bool) {
	switch {
	case v == "true":
		return 1, true
	case v == "false":
		return 0, true
	case strings.HasPrefix(v, "#x"):
		u, err := strconv.ParseUint(v[2:], 16, 64)
		return u, err == nil
	case strings.HasPrefix(v, "#b"):
		u, err := strconv.ParseUint(v[2:], 2, 64)
		return u, err == nil
	}
	return 0, false
}
