//go:build verif

package knxnet

import (
	"github.com/vapourismo/knx-go/knx/cemi"
)

func init() {
	verifHarnesses["HarnessC15Pack"] = HarnessC15Pack
	verifHarnesses["HarnessC15Send"] = HarnessC15Send
}

func c15Value(a []int) ServicePackable {
	svc, kind, infoLen, dataLen, nfam, nameLen := a[0], a[1], a[2], a[3], a[4], a[5]
	switch svc {
	case 0:
		return &ConnReq{Control: c02HostInfo(), Tunnel: c02HostInfo(), Layer: TunnelLayer(nondetU8())}
	case 1:
		return &ConnRes{Channel: nondetU8(), Status: ErrCode(nondetU8()), Control: c02HostInfo()}
	case 2:
		return &ConnStateReq{Channel: nondetU8(), Status: ErrCode(nondetU8()), Control: c02HostInfo()}
	case 3:
		return &ConnStateRes{Channel: nondetU8(), Status: ErrCode(nondetU8())}
	case 4:
		return &DiscReq{Channel: nondetU8(), Status: nondetU8(), Control: c02HostInfo()}
	case 5:
		return &DiscRes{Channel: nondetU8(), Status: nondetU8()}
	case 6:
		return &TunnelReq{Channel: nondetU8(), SeqNumber: nondetU8(), Payload: c02Cemi(kind, infoLen, dataLen)}
	case 7:
		return &TunnelRes{Channel: nondetU8(), SeqNumber: nondetU8(), Status: ErrCode(nondetU8())}
	case 8:
		return &RoutingInd{Payload: c02Cemi(kind, infoLen, dataLen)}
	case 9:
		return &SearchReq{HostInfo: c02HostInfo()}
	case 10:
		return &SearchRes{Control: c02HostInfo(), DescriptionB: DescriptionBlock{DeviceHardware: c15DeviceInfo(nameLen, a[6]), SupportedServices: c02Families(nfam)}}
	case 11:
		return &DescriptionReq{HostInfo: c02HostInfo()}
	}
	return &DescriptionRes{DeviceHardware: c15DeviceInfo(nameLen, a[6]), SupportedServices: c02Families(nfam)}
}

// c15DeviceInfo: like c02DeviceInfo; wide = 1 puts a rune beyond Latin-1 in the middle of the name;
// wide = 2, 3, 4: hardware address of 0 (nil), 8 and 5 bytes instead of the 6 the block has room for.
func c15DeviceInfo(nameLen, wide int) DeviceInformationBlock {
	d := c02DeviceInfo(nameLen)
	switch wide {
	case 2:
		d.HardwareAddr = nil // the zero value of the structure
	case 3:
		d.HardwareAddr = nondetBytes(8) // EUI-64
	case 4:
		d.HardwareAddr = nondetBytes(5)
	}
	if wide == 1 && nameLen > 0 {
		rs := []rune(d.FriendlyName)
		rs[nameLen/2] = rune(0x100 + uint32(nondetU16()))
		d.FriendlyName = string(rs)
	}
	return d
}

// HarnessC15Pack: a = {service, cEMI kind, info length, payload length, families, name length, wide}.
// The value is encoded into a buffer of exactly the reported size that is pre-filled with
// symbolic stale bytes and followed by guard bytes.
func HarnessC15Pack(a []int) {
	v := c15Value(a)
	size := int(Size(v))
	verifObserve("size", size)
	const guard = 8
	buf := make([]byte, size+guard)
	copy(buf, nondetGarbage(size))
	for i := 0; i < guard; i++ {
		buf[size+i] = 0xA5
	}
	Pack(buf[:size], v)
	if len(a) > 6 && a[6] >= 2 && a[5] <= 29 {
		// a hardware address of another length than 6 must not move the neighbouring name field
		var back Service
		_, err := Unpack(buf[:size], &back)
		verifAssert("C15.hw.frame_decodes", err == nil)
		var want, got DeviceInformationBlock
		switch x := v.(type) {
		case *SearchRes:
			want, got = x.DescriptionB.DeviceHardware, back.(*SearchRes).DescriptionB.DeviceHardware
		case *DescriptionRes:
			want, got = x.DeviceHardware, back.(*DescriptionRes).DeviceHardware
		}
		verifAssert("C15.hw.name_in_place", got.FriendlyName == want.FriendlyName)
		for i := 0; i < 6; i++ {
			b := byte(0)
			if i < len(want.HardwareAddr) {
				b = want.HardwareAddr[i]
			}
			verifAssert("C15.hw.six_octets", got.HardwareAddr[i] == b)
		}
	}
	for i := 0; i < size; i++ {
		verifAssert("C15.stale.byte_determined", verifIndep(buf[i]))
	}
	for i := 0; i < guard; i++ {
		verifAssert("C15.guard", buf[size+i] == 0xA5)
	}
	verifAssert("C15.header", buf[0] == 6 && buf[1] == 0x10 && uint16(buf[2])<<8|uint16(buf[3]) == uint16(v.Service()))
	verifAssert("C15.total_length", int(buf[4])<<8|int(buf[5]) == size)
	verifObserveNative("buf", buf)
	// the same value packed into a buffer that is longer than needed: identical frame, the
	// total-length field still describes the frame (not the buffer), the tail is not touched
	big := make([]byte, size+guard)
	copy(big, nondetGarbage(size))
	for i := 0; i < guard; i++ {
		big[size+i] = 0x5A
	}
	Pack(big, v)
	for i := 0; i < size; i++ {
		verifAssert("C15.oversize_buffer.same_frame", big[i] == buf[i])
	}
	for i := 0; i < guard; i++ {
		verifAssert("C15.oversize_buffer.tail_untouched", big[size+i] == 0x5A)
	}
	// what was written decodes again, with over-long parts cut at the field limit
	var out Service
	n, err := Unpack(buf[:size], &out)
	verifAssert("C15.decodable", err == nil && n <= uint(size))
	infoLen, dataLen, nameLen := a[2], a[3], a[5]
	if tr, ok := out.(*TunnelReq); ok {
		c15CheckCemi(tr.Payload, v.(*TunnelReq).Payload, infoLen, dataLen)
	}
	if ri, ok := out.(*RoutingInd); ok {
		c15CheckCemi(ri.Payload, v.(*RoutingInd).Payload, infoLen, dataLen)
	}
	if dr, ok := out.(*DescriptionRes); ok && a[6] == 0 {
		want := []rune(v.(*DescriptionRes).DeviceHardware.FriendlyName)
		if nameLen > 29 {
			want = want[:29]
		}
		verifAssert("C15.name_truncated", dr.DeviceHardware.FriendlyName == string(want))
	}
	verifCover("C15.end")
}

func c15LData(m cemi.Message) *cemi.LData {
	switch x := m.(type) {
	case *cemi.LDataReq:
		return &x.LData
	case *cemi.LDataCon:
		return &x.LData
	case *cemi.LDataInd:
		return &x.LData
	}
	return nil
}

func c15CheckCemi(got, want cemi.Message, infoLen, dataLen int) {
	g, w := c15LData(got), c15LData(want)
	if g == nil || w == nil {
		return
	}
	il := infoLen
	if il > 255 {
		il = 255
	}
	verifAssert("C15.info_truncated", len(g.Info) == il)
	for i := 0; i < il; i++ {
		verifAssert("C15.info_bytes", g.Info[i] == w.Info[i])
	}
	verifAssert("C15.neighbours", g.Control1 == w.Control1 && g.Control2 == w.Control2 && g.Source == w.Source && g.Destination == w.Destination)
	if wa, ok := w.Data.(*cemi.AppData); ok {
		ga, ok := g.Data.(*cemi.AppData)
		verifAssert("C15.app", ok)
		dl := dataLen
		if dl > 255 {
			dl = 255
		}
		if dl < 1 {
			dl = 1
		}
		verifAssert("C15.data_truncated", len(ga.Data) == dl && ga.Command == wa.Command)
		for i := 0; i < dl && i < len(wa.Data); i++ {
			verifAssert("C15.data_bytes", ga.Data[i] == wa.Data[i])
		}
	}
}

// HarnessC15Send: the datagram handed to the network by TunnelSocket.Send is one write of
// exactly header-total-length bytes.
func HarnessC15Send(a []int) {
	v := c15Value(a)
	conn := &c15Conn{}
	sock := verifMkTunnelSocket(conn, nil)
	err := sock.Send(v)
	verifAssert("C15.send.ok", err == nil)
	verifAssert("C15.send.one_write", conn.writes == 1)
	verifAssert("C15.send.length", len(conn.last) == int(Size(v)) && int(conn.last[4])<<8|int(conn.last[5]) == len(conn.last))
	verifObserve("len", len(conn.last))
	verifCover("C15.send.end")
}

func init() {
	verifHarnesses["HarnessC15PackSeq"] = HarnessC15PackSeq
}

// HarnessC15PackSeq: a = {service 10 | 12, first name length, second name length, second name has a rune
// beyond Latin-1}: two values are encoded one after the other; no byte of the second encoding may
// depend on the first value (state kept between calls).
func HarnessC15PackSeq(a []int) {
	mk := func(name string) ServicePackable {
		d := c02DeviceInfo(0)
		d.FriendlyName = name
		if a[0] == 10 {
			return &SearchRes{Control: c02HostInfo(), DescriptionB: DescriptionBlock{DeviceHardware: d, SupportedServices: c02Families(1)}}
		}
		return &DescriptionRes{DeviceHardware: d, SupportedServices: c02Families(1)}
	}
	first := make([]rune, a[1])
	for i, b := range nondetGarbage(a[1]) { // the first name is the "stale" state
		first[i] = rune(b&0x7F | 1)
	}
	_ = AllocAndPack(mk(string(first)))
	second := make([]rune, a[2])
	for i := range second {
		second[i] = rune(nondetU8()&0x7F | 1)
	}
	if a[3] == 1 && a[2] > 0 {
		second[a[2]/2] = 0x100 + rune(nondetU16())
	}
	out := AllocAndPack(mk(string(second)))
	for i := range out {
		verifAssert("C15.stale.second_encoding_independent_of_first", verifIndep(out[i]))
	}
	verifObserveNative("out", out)
	verifCover("C15.packseq.end")
}
