//go:build verif

package knx

import (
	"time"

	"github.com/vapourismo/knx-go/knx/knxnet"
)

func init() {
	verifHarnesses["HarnessC20Describe"] = HarnessC20Describe
	verifHarnesses["HarnessC20Discover"] = HarnessC20Discover
}

type c20Offer struct {
	at    int64
	frame knxnet.Service
}

// c20Env offers K frames of nondeterministic kind (0 description response, 1 search response,
// 2 another frame) after nondeterministic delays (0, 2 or 4 s; the timeout under test is 5 s).
func c20Env(K int, offers *[]c20Offer) {
	verifDaemon()
	for i := 0; i < K; i++ {
		verifSleep(int64(nondetChoice(3)) * int64(2*time.Second))
		var f knxnet.Service
		switch nondetChoice(3) {
		case 0:
			f = &knxnet.DescriptionRes{}
		case 1:
			f = &knxnet.SearchRes{}
		default:
			f = &knxnet.TunnelRes{}
		}
		*offers = append(*offers, c20Offer{verifNow(), f})
		knxnet.VerifInbound <- f
	}
}

// HarnessC20Describe: a = {K frames}.
func HarnessC20Describe(a []int) {
	knxnet.VerifReset("udp")
	var offers []c20Offer
	go c20Env(a[0], &offers)
	timeout := 5 * time.Second
	t0 := verifNow()
	res, err := DescribeTunnel("192.0.2.1:3671", timeout)
	t1 := verifNow()
	verifAssert("C20.describe.no_error", err == nil)
	verifAssert("C20.describe.bounded", t1-t0 <= int64(timeout))
	verifAssert("C20.describe.one_request", knxnet.VerifConnWrites() == 1 && knxnet.VerifDials == 1)
	w := knxnet.VerifConnLast()
	want := knxnet.AllocAndPack(&knxnet.DescriptionReq{HostInfo: knxnet.VerifHostInfo})
	verifAssert("C20.describe.request_frame", len(w) == len(want))
	for i := range want {
		verifAssert("C20.describe.request_frame", w[i] == want[i])
	}
	verifAssert("C20.describe.reply_address_is_local_endpoint", knxnet.VerifHostInfoCalls == 1 && knxnet.VerifHostInfoArg == knxnet.VerifAddr{Net: "udp"})
	verifAssert("C20.describe.socket_released", knxnet.VerifConnClosed() == 1)
	var first *knxnet.DescriptionRes
	var firstAt int64
	for _, o := range offers {
		if d, ok := o.frame.(*knxnet.DescriptionRes); ok && first == nil {
			first, firstAt = d, o.at
		}
	}
	if res != nil {
		verifCover("C20.describe.answered")
		verifAssert("C20.describe.first_description_response", res == first)
	} else {
		verifCover("C20.describe.timeout")
		verifAssert("C20.describe.returns_at_timeout", t1-t0 == int64(timeout))
		verifAssert("C20.describe.nothing_missed", first == nil || firstAt-t0 >= int64(timeout))
	}
	verifObserve("answered", res != nil)
}

func init() {
	verifHarnesses["HarnessC20DescribeMany"] = HarnessC20DescribeMany
}

// HarnessC20DescribeMany: a = {n}: n unrelated frames arrive before the description response, all
// well within the timeout: the response is still the result ("whatever else arrives on the socket").
func HarnessC20DescribeMany(a []int) {
	knxnet.VerifReset("udp")
	want := &knxnet.DescriptionRes{}
	go func() {
		verifDaemon()
		for i := 0; i < a[0]; i++ {
			var f knxnet.Service
			switch i % 3 {
			case 0:
				f = &knxnet.TunnelRes{}
			case 1:
				f = &knxnet.SearchRes{}
			default:
				f = &knxnet.ConnStateRes{}
			}
			knxnet.VerifInbound <- f
			if i%8 == 7 {
				verifSleep(int64(100 * time.Millisecond))
			}
		}
		knxnet.VerifInbound <- want
	}()
	res, err := DescribeTunnel("192.0.2.1:3671", 5*time.Second)
	verifAssert("C20.many.no_error", err == nil)
	verifAssert("C20.many.description_response_found", res == want)
	verifAssert("C20.many.socket_released", knxnet.VerifConnClosed() == 1 && knxnet.VerifConnWrites() == 1)
	verifCover("C20.many.end")
}

// HarnessC20Discover: a = {K frames}.
func HarnessC20Discover(a []int) {
	knxnet.VerifReset("udp")
	var offers []c20Offer
	go c20Env(a[0], &offers)
	timeout := 5 * time.Second
	t0 := verifNow()
	res, err := DiscoverOnInterface(nil, "224.0.23.12:3671", timeout)
	t1 := verifNow()
	verifAssert("C20.discover.no_error", err == nil)
	verifAssert("C20.discover.returns_at_timeout", t1-t0 == int64(timeout))
	verifAssert("C20.discover.one_request", knxnet.VerifNetWrites() == 1 && knxnet.VerifDials == 1)
	w := knxnet.VerifNetWrite(0)
	want := knxnet.AllocAndPack(&knxnet.SearchReq{HostInfo: knxnet.VerifHostInfo})
	verifAssert("C20.discover.request_frame", len(w) == len(want))
	for i := range want {
		verifAssert("C20.discover.request_frame", w[i] == want[i])
	}
	verifAssert("C20.discover.socket_released", knxnet.VerifNetClosed() == 1)
	var srs []*knxnet.SearchRes
	early := 0
	for _, o := range offers {
		if s, ok := o.frame.(*knxnet.SearchRes); ok {
			srs = append(srs, s)
			if o.at-t0 < int64(timeout) {
				early++
			}
		}
	}
	// exactly the search responses received until the timeout, once each, in arrival order
	verifAssert("C20.discover.count", len(res) >= early && len(res) <= len(srs))
	for i, r := range res {
		verifAssert("C20.discover.in_order_once", r == srs[i])
	}
	verifObserve("n", len(res))
	verifCover("C20.discover.end")
}
