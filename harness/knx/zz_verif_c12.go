//go:build verif

package knx

import (
	"time"

	"github.com/vapourismo/knx-go/knx/cemi"
	"github.com/vapourismo/knx-go/knx/knxnet"
)

func init() {
	verifHarnesses["HarnessC12Out"] = HarnessC12Out
	verifHarnesses["HarnessC12In"] = HarnessC12In
}

func c12Event(n int) GroupEvent {
	return GroupEvent{Command: GroupCommand(nondetChoice(3)), Source: cemi.IndividualAddr(nondetU16()),
		Destination: cemi.GroupAddr(nondetU16()), Data: nondetBytes(n)}
}

// c12CheckLData: wire = the frame was read back from its byte encoding, which keeps only the low six
// bits of the first payload byte and carries an empty payload as one zero byte.
func c12CheckLData(ld *cemi.LData, ev GroupEvent, n int, wire bool) {
	verifAssert("C12.out.group_flag", ld.Control2.IsGroupAddr())
	verifAssert("C12.out.hops", uint8(ld.Control2)>>4&7 == 6)
	verifAssert("C12.out.prio_low", uint8(ld.Control1)>>2&3 == 3)
	verifAssert("C12.out.stdframe", (uint8(ld.Control1)&0x80 != 0) == (n <= 15))
	verifAssert("C12.out.addr", ld.Source == ev.Source && ld.Destination == uint16(ev.Destination))
	app, ok := ld.Data.(*cemi.AppData)
	verifAssert("C12.out.appdata", ok)
	verifAssert("C12.out.apci", uint8(app.Command) == uint8(ev.Command) && !app.Numbered)
	if wire && n == 0 {
		verifAssert("C12.out.payload_len", len(app.Data) == 1 && app.Data[0] == 0)
		return
	}
	verifAssert("C12.out.payload_len", len(app.Data) == n)
	for i := 0; i < n; i++ {
		if wire && i == 0 {
			verifAssert("C12.out.payload", app.Data[0] == ev.Data[0]&0x3F)
			continue
		}
		verifAssert("C12.out.payload", app.Data[i] == ev.Data[i])
	}
}

// c12RouterLData decodes datagram i written by the router client built by newGroupRouterEnv.
func c12RouterLData(i int) *cemi.LData {
	var srv knxnet.Service
	_, err := knxnet.Unpack(verifNetWrite(i), &srv)
	verifAssert("C12.out.decodes", err == nil)
	ind, ok := srv.(*knxnet.RoutingInd)
	verifAssert("C12.out.kind", ok)
	m, ok := ind.Payload.(*cemi.LDataInd)
	verifAssert("C12.out.ind", ok && m.MessageCode() == cemi.LDataIndCode)
	return &m.LData
}

// newBBGroupTunnel builds the group tunnel client through its real constructor (see zz_verif_tunnel.go).
func newBBGroupTunnel() (GroupTunnel, *tunGW) {
	c := nondetU8()
	g := newTunGW("udp", func(f knxnet.Service) []knxnet.Service {
		switch r := f.(type) {
		case *knxnet.ConnReq:
			return []knxnet.Service{&knxnet.ConnRes{Channel: c, Status: 0}}
		case *knxnet.ConnStateReq:
			return []knxnet.Service{&knxnet.ConnStateRes{Channel: r.Channel, Status: 0}}
		case *knxnet.TunnelReq:
			return []knxnet.Service{&knxnet.TunnelRes{Channel: r.Channel, SeqNumber: r.SeqNumber, Status: 0}}
		}
		return nil
	})
	gt, err := NewGroupTunnel("192.0.2.1:3671", TunnelConfig{ResendInterval: 2 * time.Second, HeartbeatInterval: 100 * time.Second, ResponseTimeout: 5 * time.Second})
	if err != nil {
		verifFail("env.tunnel_constructor")
	}
	return gt, g
}

// c12TunnelLData returns the L_Data part of every tunnelling request the gateway has seen.
func c12TunnelLData(g *tunGW) []*cemi.LData {
	var out []*cemi.LData
	for _, f := range g.frames {
		if req, ok := f.(*knxnet.TunnelReq); ok {
			m, ok := req.Payload.(*cemi.LDataReq)
			verifAssert("C12.out.req", ok && m.MessageCode() == cemi.LDataReqCode)
			out = append(out, &m.LData)
		}
	}
	return out
}

// newGroupRouterEnv builds the group router client through its real constructor (see zz_verif_router.go).
func newGroupRouterEnv() GroupRouter {
	knxnet.VerifReset("udp")
	gr, err := NewGroupRouter("224.0.23.12:3671", RouterConfig{RetainCount: 2})
	if err != nil {
		verifFail("env.router_constructor")
	}
	return gr
}

// HarnessC12Out: a = {0 tunnel | 1 router, payload length}: one group event sent through the
// group client leaves as exactly one L_Data.req / L_Data.ind frame with the prescribed fields.
func HarnessC12Out(a []int) {
	n := a[1]
	ev := c12Event(n)
	sock := newVSock()
	if a[0] == 2 {
		// group tunnel built by the real NewGroupTunnel against the scripted gateway; the request is
		// read back from the bytes written
		gt, g := newBBGroupTunnel()
		err := gt.Send(ev)
		lds := c12TunnelLData(g)
		verifAssert("C12.out.sent", err == nil && len(lds) == 1)
		c12CheckLData(lds[0], ev, n, true)
	} else if a[0] == 0 {
		gt := GroupTunnel{Tunnel: &Tunnel{sock: sock, config: TunnelConfig{UseTCP: true}, channel: nondetU8()}}
		err := gt.Send(ev)
		verifAssert("C12.out.sent", err == nil && len(sock.log) == 1)
		req, ok := sock.log[0].(*knxnet.TunnelReq)
		verifAssert("C12.out.kind", ok)
		m, ok := req.Payload.(*cemi.LDataReq)
		verifAssert("C12.out.req", ok && m.MessageCode() == cemi.LDataReqCode)
		c12CheckLData(&m.LData, ev, n, false)
	} else {
		gr := newGroupRouterEnv()
		err := gr.Send(ev)
		verifAssert("C12.out.sent", err == nil && verifNetWrites() == 1)
		c12CheckLData(c12RouterLData(0), ev, n, true)
	}
	verifCover("C12.out.end")
}

// HarnessC12In: a = {cEMI kind as in C02 (0..10), payload length}: one message of the given kind
// fed to the real serveGroupInbound goroutine; it surfaces exactly when it is an L_Data.ind to a
// group address carrying a group read/response/write.
func HarnessC12In(a []int) {
	kind, n := a[0], a[1]
	var msg cemi.Message
	var ld *cemi.LData
	mk := func() cemi.LData {
		l := cemi.LData{Control1: cemi.ControlField1(nondetU8()), Control2: cemi.ControlField2(nondetU8()),
			Source: cemi.IndividualAddr(nondetU16()), Destination: nondetU16()}
		if kind <= 2 {
			l.Data = &cemi.AppData{Numbered: nondetBool(), SeqNumber: nondetU8() & 15, Command: cemi.APCI(nondetU8() & 15), Data: nondetBytes(n)}
		} else {
			l.Data = &cemi.ControlData{Numbered: nondetBool(), SeqNumber: nondetU8() & 15, Command: nondetU8() & 3}
		}
		return l
	}
	switch kind {
	case 0, 3:
		m := &cemi.LDataReq{LData: mk()}
		msg, ld = m, &m.LData
	case 1, 4:
		m := &cemi.LDataCon{LData: mk()}
		msg, ld = m, &m.LData
	case 2, 5:
		m := &cemi.LDataInd{LData: mk()}
		msg, ld = m, &m.LData
	case 6:
		msg = &cemi.LRawReq{LRaw: nondetBytes(n)}
	case 7:
		msg = &cemi.LRawCon{LRaw: nondetBytes(n)}
	case 8:
		msg = &cemi.LRawInd{LRaw: nondetBytes(n)}
	case 9:
		m := cemi.LBusmonInd(nondetBytes(n))
		msg = &m
	default:
		msg = &cemi.UnsupportedMessage{Code: cemi.MessageCode(nondetU8()), Data: nondetBytes(n)}
	}
	in := make(chan cemi.Message)
	out := make(chan GroupEvent)
	go serveGroupInbound(in, out)
	go func() {
		in <- msg
		close(in)
	}()
	ev, open := <-out
	expect := false
	if kind == 2 {
		app := ld.Data.(*cemi.AppData)
		expect = uint8(ld.Control2)&0x80 != 0 && app.Command < 3
	}
	verifObserve("surfaced", open)
	if expect {
		verifCover("C12.in.surfaced")
		verifAssert("C12.in.surfaces", open)
		app := ld.Data.(*cemi.AppData)
		verifAssert("C12.in.fields", uint8(ev.Command) == uint8(app.Command) && ev.Source == ld.Source && uint16(ev.Destination) == ld.Destination)
		verifAssert("C12.in.payload_len", len(ev.Data) == n)
		for i := 0; i < n; i++ {
			verifAssert("C12.in.payload", ev.Data[i] == app.Data[i])
		}
		_, again := <-out
		verifAssert("C12.in.closes", !again)
	} else {
		verifCover("C12.in.filtered")
		verifAssert("C12.in.filtered", !open)
	}
}

func init() {
	verifHarnesses["HarnessC12E2E"] = HarnessC12E2E
}

// HarnessC12E2E: a = {payload length}: an event sent by one router client and received by
// another, through the byte encoding, arrives unchanged up to the two documented exceptions.
func HarnessC12E2E(a []int) {
	n := a[0]
	ev := c12Event(n)
	gr := newGroupRouterEnv()
	verifAssert("C12.e2e.sent", gr.Send(ev) == nil && verifNetWrites() == 1)
	var srv knxnet.Service
	_, err := knxnet.Unpack(verifNetWrite(0), &srv)
	verifAssert("C12.e2e.decodes", err == nil)
	ind, ok := srv.(*knxnet.RoutingInd)
	verifAssert("C12.e2e.kind", ok)
	in := make(chan cemi.Message)
	out := make(chan GroupEvent)
	go serveGroupInbound(in, out)
	go func() {
		in <- ind.Payload
		close(in)
	}()
	got, open := <-out
	verifAssert("C12.e2e.arrives", open)
	verifAssert("C12.e2e.fields", got.Command == ev.Command && got.Source == ev.Source && got.Destination == ev.Destination)
	if n == 0 {
		verifAssert("C12.e2e.empty_is_zero_byte", len(got.Data) == 1 && got.Data[0] == 0)
	} else {
		verifAssert("C12.e2e.len", len(got.Data) == n)
		verifAssert("C12.e2e.first_byte", got.Data[0] == ev.Data[0]&0x3F)
		for i := 1; i < n; i++ {
			verifAssert("C12.e2e.payload", got.Data[i] == ev.Data[i])
		}
	}
	verifObserve("len", len(got.Data))
	verifCover("C12.e2e.end")
}

func init() {
	verifHarnesses["HarnessC12OutSeq"] = HarnessC12OutSeq
}

// HarnessC12OutSeq: a = {0 tunnel | 1 router, n1, n2}: two events sent one after the other through
// the same client: the second frame must not depend on the first (shared template state).
func HarnessC12OutSeq(a []int) {
	ev1, ev2 := c12Event(a[1]), c12Event(a[2])
	sock := newVSock()
	var lds [2]*cemi.LData
	if a[0] == 2 {
		gt, g := newBBGroupTunnel()
		verifAssert("C12.out.sent", gt.Send(ev1) == nil && gt.Send(ev2) == nil)
		got := c12TunnelLData(g)
		verifAssert("C12.out.sent", len(got) == 2)
		lds[0], lds[1] = got[0], got[1]
	} else if a[0] == 0 {
		gt := GroupTunnel{Tunnel: &Tunnel{sock: sock, config: TunnelConfig{UseTCP: true}, channel: nondetU8()}}
		verifAssert("C12.out.sent", gt.Send(ev1) == nil && gt.Send(ev2) == nil && len(sock.log) == 2)
		for i := range lds {
			lds[i] = &sock.log[i].(*knxnet.TunnelReq).Payload.(*cemi.LDataReq).LData
		}
	} else {
		gr := newGroupRouterEnv()
		verifAssert("C12.out.sent", gr.Send(ev1) == nil)
		verifQuiesce()
		verifAssert("C12.out.sent", gr.Send(ev2) == nil && verifNetWrites() == 2)
		for i := range lds {
			lds[i] = c12RouterLData(i)
		}
	}
	c12CheckLData(lds[0], ev1, a[1], a[0] >= 1)
	c12CheckLData(lds[1], ev2, a[2], a[0] >= 1)
	verifCover("C12.outseq.end")
}
