//go:build verif

package knx

import (
	"time"

	"github.com/vapourismo/knx-go/knx/cemi"
	"github.com/vapourismo/knx-go/knx/knxnet"
)

func init() {
	verifHarnesses["HarnessC03Exchange"] = HarnessC03Exchange
	verifHarnesses["HarnessC03Relay"] = HarnessC03Relay
	verifHarnesses["HarnessC03TwoSenders"] = HarnessC03TwoSenders
	verifHarnesses["HarnessC03Connect"] = HarnessC03Connect
}

// HarnessC03Exchange: a = {K events, tcp, socket fails from log position (-1 never), configuration}.
// One real Send from an arbitrary sender state (sequence number s and channel c symbolic). The
// environment, K times: stays silent from now on, lets a whole or half a resend interval pass, offers an
// acknowledgement with symbolic sequence number and status, or closes the ack channel.
func HarnessC03Exchange(a []int) {
	K, tcp := a[0], a[1] == 1
	sock := newVSock()
	sock.failFrom = a[2]
	conn := vTunnel(sock, tcp)
	switch a[3] {
	case 1:
		conn.config.ResendInterval, conn.config.ResponseTimeout = 3*time.Second, 7*time.Second
	case 2:
		// the library's default configuration: up to 20 transmissions before the timeout
		conn.config.ResendInterval, conn.config.ResponseTimeout = DefaultTunnelConfig.ResendInterval, DefaultTunnelConfig.ResponseTimeout
	}
	resend, timeout := int64(conn.config.ResendInterval), int64(conn.config.ResponseTimeout)
	s, c := nondetU8(), nondetU8()
	conn.seqNumber, conn.channel = s, c
	type ackRec struct {
		seq    uint8
		status uint8
	}
	var consumed []ackRec
	closed := false
	go func() {
		verifDaemon()
		for i := 0; i < K; i++ {
			switch nondetChoice(5) {
			case 0:
				return
			case 1:
				verifSleep(resend)
			case 4:
				verifSleep(resend / 2)
			case 2:
				r := &knxnet.TunnelRes{Channel: c, SeqNumber: nondetU8(), Status: knxnet.ErrCode(nondetU8())}
				conn.ack <- r
				consumed = append(consumed, ackRec{r.SeqNumber, uint8(r.Status)})
			case 3:
				closed = true
				close(conn.ack)
				return
			}
		}
	}()
	msg := c04Msgs[0]
	t0 := verifNow()
	returned := false
	go func() { // watchdog: Send must be back one resend interval after the response timeout at the latest
		verifDaemon()
		verifSleep(timeout + resend)
		verifAssert("C03.send_returns", returned)
	}()
	err := conn.Send(msg)
	returned = true
	t1 := verifNow()
	verifObserve("ok", err == nil)
	verifObserve("frames", len(sock.log))
	// every transmission is the same request
	wantSeq := s
	if tcp {
		wantSeq = 0
	}
	for i, f := range sock.log {
		req, ok := f.(*knxnet.TunnelReq)
		verifAssert("C03.frame_is_request", ok)
		verifAssert("C03.frame_identical", req.Channel == c && req.SeqNumber == wantSeq && req.Payload == msg)
		verifAssert("C03.resend_instants", sock.stamps[i] == t0+int64(i)*resend)
	}
	verifAssert("C03.returns_by_timeout", t1-t0 <= timeout)
	if a[2] == 0 {
		verifCover("C03.sendfails")
		verifAssert("C03.sendfail.error", err != nil && len(sock.log) == 0 && conn.seqNumber == s)
		return
	}
	if tcp {
		verifCover("C03.tcp")
		verifAssert("C03.tcp.one_frame_no_wait", err == nil && len(sock.log) == 1 && t1 == t0 && len(consumed) == 0)
		return
	}
	// the first consumed acknowledgement that carries this request's number decides
	matched, status := false, uint8(0)
	for _, r := range consumed {
		if !matched && r.seq == s {
			matched, status = true, r.status
		}
	}
	if matched {
		verifCover("C03.matched")
		verifAssert("C03.success_iff_status_ok", (err == nil) == (status == 0))
		verifAssert("C03.counter_advances", conn.seqNumber == s+1)
	} else {
		verifCover("C03.unmatched")
		verifAssert("C03.no_match_is_error", err != nil)
		verifAssert("C03.counter_kept", conn.seqNumber == s)
		if !closed && a[2] < 0 {
			verifAssert("C03.timeout_instant", t1-t0 == timeout)
		}
	}
	// consumed acknowledgements after the matching one do not exist: Send had returned
	n := 0
	for _, r := range consumed {
		if r.seq == s {
			n++
		}
	}
	verifAssert("C03.one_ack_per_send", n <= 1)
}

// HarnessC03Relay: a = {reader: 0 immediately, 1 after half a resend interval, 2 after two
// intervals, 3 never; ack channel closed first 0/1}: handleTunnelRes offers the acknowledgement
// to a waiting Send for at most one resend interval and then gives up; it never leaks a goroutine
// and survives a closed ack channel.
func HarnessC03Relay(a []int) {
	sock := newVSock()
	conn := vTunnel(sock, false)
	c := nondetU8()
	conn.channel = c
	res := &knxnet.TunnelRes{Channel: nondetU8(), SeqNumber: nondetU8(), Status: knxnet.ErrCode(nondetU8())}
	if a[1] == 1 {
		close(conn.ack)
	}
	err := conn.handleTunnelRes(res)
	verifAssert("C03.relay.channel_check", (err == nil) == (res.Channel == c))
	var got *knxnet.TunnelRes
	resend := int64(conn.config.ResendInterval)
	if a[1] == 0 {
		switch a[0] {
		case 1:
			verifSleep(resend / 2)
		case 2, 3:
			verifSleep(2 * resend)
		}
		if a[0] != 3 {
			select {
			case got = <-conn.ack:
			default:
			}
		}
	}
	alive := verifQuiesce()
	verifAssert("C03.relay.no_goroutine_left", alive == 0)
	if a[1] == 0 && a[0] <= 1 && res.Channel == c {
		verifCover("C03.relay.delivered")
		verifAssert("C03.relay.delivered", got == res)
	} else {
		verifAssert("C03.relay.not_delivered", got == nil)
	}
	verifObserve("got", got != nil)
}

// HarnessC03TwoSenders: a = {senders, sends per sender, faults}: concurrent Sends against a gateway
// goroutine that acknowledges, loses or duplicates; at most one request is unacknowledged at a
// time and acknowledged sequence numbers are consecutive.
func HarnessC03TwoSenders(a []int) {
	nS, per, faults := a[0], a[1], a[2]
	sock := newVSock()
	conn := vTunnel(sock, false)
	s, c := nondetU8(), nondetU8()
	conn.seqNumber, conn.channel = s, c
	frames := make(chan *knxnet.TunnelReq, 64)
	sock.onSend = func(p knxnet.ServicePackable) {
		if r, ok := p.(*knxnet.TunnelReq); ok {
			frames <- r
		}
	}
	var acked []uint8
	var forwarded []cemi.Message // what the gateway put on the bus (first acceptance of each number)
	go func() {                  // gateway
		verifDaemon()
		expect := s
		for f := range frames {
			if f.SeqNumber != expect && f.SeqNumber != expect-1 {
				continue
			}
			first := f.SeqNumber == expect
			if first {
				expect++
				acked = append(acked, f.SeqNumber) // accepted (forwarded) by the gateway
				forwarded = append(forwarded, f.Payload)
			}
			k := 0
			if faults > 0 {
				k = nondetChoice(3)
			}
			switch k {
			case 1: // acknowledgement lost
				faults--
				continue
			case 2: // acknowledgement duplicated
				faults--
				conn.handleTunnelRes(&knxnet.TunnelRes{Channel: c, SeqNumber: f.SeqNumber})
			}
			conn.handleTunnelRes(&knxnet.TunnelRes{Channel: c, SeqNumber: f.SeqNumber})
		}
	}()
	results := make(chan error, nS*per)
	msgs := [4]cemi.Message{c04Msgs[0], c04Msgs[1], c04Msgs[2], c04Msgs[3]}
	var succeeded []cemi.Message
	for i := 0; i < nS; i++ {
		i := i
		go func() {
			for j := 0; j < per; j++ {
				err := conn.Send(msgs[i*per+j])
				if err == nil {
					succeeded = append(succeeded, msgs[i*per+j])
				}
				results <- err
			}
		}()
	}
	okCount := 0
	for i := 0; i < nS*per; i++ {
		if <-results == nil {
			okCount++
		}
	}
	// stop-and-wait: once another telegram has been transmitted, an earlier one never reappears
	for i := range sock.log {
		ri := sock.log[i].(*knxnet.TunnelReq)
		for j := i + 1; j < len(sock.log); j++ {
			rj := sock.log[j].(*knxnet.TunnelReq)
			if rj.Payload != ri.Payload {
				for k := j + 1; k < len(sock.log); k++ {
					verifAssert("C03.two.no_interleaving", sock.log[k].(*knxnet.TunnelReq).Payload != ri.Payload)
				}
			}
		}
	}
	for i, q := range acked {
		verifAssert("C03.two.consecutive", q == s+uint8(i))
	}
	verifAssert("C03.two.counter", conn.seqNumber == s+uint8(len(acked)) || conn.seqNumber+1 == s+uint8(len(acked)))
	if len(a) > 3 && a[3] == 5 {
		// C05 with concurrent senders (registered under C05, fault-free gateway): every telegram whose
		// Send succeeded was put on the bus exactly once, and none twice
		for _, m := range succeeded {
			n := 0
			for _, f := range forwarded {
				if f == m {
					n++
				}
			}
			verifAssert("C05.two.success_implies_forwarded_once", n == 1)
		}
		for i := range forwarded {
			for j := i + 1; j < len(forwarded); j++ {
				verifAssert("C05.two.never_forwarded_twice", forwarded[i] != forwarded[j])
			}
		}
		verifCover("C05.two.end")
	}
	verifObserve("ok", okCount)
	verifCover("C03.two.end")
}

// HarnessC03Connect: a = {answer: 0 ok, 1 busy then ok, 2 refused, 3 silence, 4 inbound closed}:
// requestConn from an arbitrary previous state adopts the assigned channel and restarts the
// send counter at 0.
func HarnessC03Connect(a []int) {
	sock := newVSock()
	conn := vTunnel(sock, false)
	conn.seqNumber, conn.channel = nondetU8(), nondetU8()
	newCh := nondetU8()
	status := knxnet.ErrCode(nondetU8())
	go func() {
		verifDaemon()
		switch a[0] {
		case 0:
			sock.in <- &knxnet.ConnRes{Channel: newCh, Status: 0}
		case 1:
			sock.in <- &knxnet.ConnRes{Channel: nondetU8(), Status: knxnet.ErrNoMoreConnections}
			sock.in <- &knxnet.TunnelRes{}
			sock.in <- &knxnet.ConnRes{Channel: newCh, Status: 0}
		case 2:
			verifAssume(status != 0 && status != knxnet.ErrNoMoreConnections && status != knxnet.ErrNoMoreUniqueConnections)
			sock.in <- &knxnet.ConnRes{Channel: newCh, Status: status}
		case 4:
			close(sock.in)
		}
	}()
	old := conn.channel
	t0 := verifNow()
	err := conn.requestConn()
	t1 := verifNow()
	for _, f := range sock.log {
		_, ok := f.(*knxnet.ConnReq)
		verifAssert("C03.connect.frames", ok)
	}
	verifObserve("ok", err == nil)
	if a[0] <= 1 {
		verifCover("C03.connect.ok")
		verifAssert("C03.connect.adopts_channel", err == nil && conn.channel == newCh && conn.seqNumber == 0)
	} else {
		verifCover("C03.connect.fails")
		verifAssert("C03.connect.error", err != nil && conn.channel == old)
		if a[0] == 3 {
			verifAssert("C03.connect.timeout", t1-t0 == int64(conn.config.ResponseTimeout))
		}
	}
}
