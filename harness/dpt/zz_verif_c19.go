//go:build verif

package dpt

import "math"

func init() {
	verifHarnesses["HarnessC19Entry"] = HarnessC19Entry
	verifHarnesses["HarnessC19Names"] = HarnessC19Names
	verifHarnesses["HarnessC19Unknown"] = HarnessC19Unknown
	verifHarnesses["HarnessC19Types"] = HarnessC19Types
}

// HarnessC19Types reports "name=<registry key> <dynamic type>" for the completeness check of the driver.
func HarnessC19Types(a []int) {
	for _, n := range ListSupportedTypes() {
		d, ok := Produce(n)
		if ok {
			verifObserve("type", n+" "+verifTypeName(d))
		}
	}
}

func c19TypeName(main, sub int) string {
	n := dptName(main, sub)
	out := []byte("*dpt.DPT_")
	for i := 0; i < len(n); i++ {
		if n[i] != '.' {
			out = append(out, n[i])
		}
	}
	return string(out)
}

// HarnessC19Entry: a = {main, sub}: the entry can be produced, has the type bearing its number,
// and every instance is fresh and independent of the registry and of other instances.
func HarnessC19Entry(a []int) {
	main, sub := a[0], a[1]
	name := dptName(main, sub)
	d1, ok1 := Produce(name)
	d2, ok2 := Produce(name)
	verifAssert("C19.producible", ok1 && ok2 && d1 != nil && d2 != nil)
	verifAssert("C19.type", verifTypeName(d1) == c19TypeName(main, sub))
	verifAssert("C19.distinct", d1 != d2)
	zero := d2.Pack()
	L := dptWireLen(main)
	if L == 0 {
		L = 4
	}
	data := nondetBytes(L)
	err := d1.Unpack(data)
	verifObserve("decoded", err == nil)
	d3, ok3 := Produce(name)
	verifAssert("C19.producible", ok3)
	verifAssert("C19.fresh_zero", verifSame(d2, d3))
	z3 := d3.Pack()
	verifAssert("C19.fresh_zero_bytes", len(z3) == len(zero))
	for i := range zero {
		verifAssert("C19.fresh_zero_bytes", z3[i] == zero[i])
	}
	verifAssert("C19.distinct", d3 != d1 && d3 != d2)
	verifCover("C19.entry.end")
}

// HarnessC19Names: form and uniqueness of the listed names (concrete execution of the real initialiser).
func HarnessC19Names(a []int) {
	names := ListSupportedTypes()
	verifObserve("count", len(names))
	for i, n := range names {
		dot := -1
		okForm := len(n) > 0
		for j := 0; j < len(n); j++ {
			switch {
			case n[j] == '.':
				if dot >= 0 {
					okForm = false
				}
				dot = j
			case n[j] < '0' || n[j] > '9':
				okForm = false
			}
		}
		// main number, a dot, at least three digits of sub-number (14.1200 is a genuine KNX identifier)
		verifAssert("C19.name_form", okForm && dot >= 1 && len(n)-dot-1 >= 3)
		for k := 0; k < i; k++ {
			verifAssert("C19.unique", names[k] != n)
		}
		_, ok := Produce(n)
		verifAssert("C19.listed_producible", ok)
	}
	// the listing handed out belongs to the caller: overwriting it (an in-place filter, a sort)
	// changes neither the registry nor what the next caller is told
	first := append([]string(nil), names...)
	for i := range names {
		names[i] = "0.000"
	}
	names = names[:0]
	again := ListSupportedTypes()
	verifAssert("C19.listing_independent.count", len(again) == len(first))
	seen := map[string]bool{}
	for _, n := range again {
		seen[n] = true
	}
	for _, n := range first {
		verifAssert("C19.listing_independent.same_names", seen[n])
		_, ok := Produce(n)
		verifAssert("C19.listing_independent.still_producible", ok)
	}
	verifCover("C19.names.end")
}

// HarnessC19Unknown: a = {L}: every string of length L; it is produced exactly when it is listed.
func HarnessC19Unknown(a []int) {
	name := string(nondetBytes(a[0]))
	d, ok := Produce(name)
	listed := false
	for _, n := range ListSupportedTypes() {
		if n == name {
			listed = true
		}
	}
	verifObserve("ok", ok)
	if ok {
		verifCover("C19.known")
		verifAssert("C19.known_listed", listed && d != nil)
	} else {
		verifCover("C19.unknown")
		verifAssert("C19.unknown_unlisted", !listed && d == nil)
	}
}

func init() {
	verifHarnesses["HarnessC19Concurrent"] = HarnessC19Concurrent
}

// HarnessC19Concurrent: a = {main, sub}: two goroutines produce an instance each and decode different
// payloads into them at the same time; under the happens-before check any access of both to one
// datapoint object is a race, and afterwards each instance holds its own value.
func HarnessC19Concurrent(a []int) {
	main, sub := a[0], a[1]
	name := dptName(main, sub)
	L := dptWireLen(main)
	if L == 0 {
		L = 4
	}
	p1, p2 := nondetBytes(L), nondetBytes(L)
	var d [2]Datapoint
	var errs [2]error
	done := make(chan int, 2)
	for i, p := range [][]byte{p1, p2} {
		i, p := i, p
		go func() {
			x, _ := Produce(name)
			errs[i] = x.Unpack(p)
			d[i] = x
			done <- i
		}()
	}
	<-done
	<-done
	verifAssert("C19.conc.distinct", d[0] != d[1])
	if errs[0] == nil && errs[1] == nil {
		// each instance re-encodes what was decoded into it, untouched by the other goroutine
		r1, _ := Produce(name)
		r2, _ := Produce(name)
		verifAssert("C19.conc.own_value", r1.Unpack(p1) == nil && r2.Unpack(p2) == nil && verifSame(d[0], r1) && verifSame(d[1], r2))
		verifCover("C19.conc.both_decoded")
	}
	verifCover("C19.conc.end")
}

func init() {
	verifHarnesses["HarnessC19Many"] = HarnessC19Many
}

// HarnessC19Many: a = {main, sub, n}: n instances of one name in a row: all distinct objects, each a
// zero value when handed out, none changed by decoding into another (pools, batches and caches that
// run out or wrap only after many calls show here).
func HarnessC19Many(a []int) {
	name := dptName(a[0], a[1])
	n := a[2]
	L := dptWireLen(a[0])
	if L == 0 {
		L = 4
	}
	first, _ := Produce(name)
	zero := first.Pack()
	all := []Datapoint{first}
	for i := 1; i < n; i++ {
		d, ok := Produce(name)
		verifAssert("C19.many.producible", ok && d != nil)
		z := d.Pack()
		verifAssert("C19.many.fresh_zero", len(z) == len(zero))
		for j := range zero {
			verifAssert("C19.many.fresh_zero", z[j] == zero[j])
		}
		for _, o := range all {
			verifAssert("C19.many.distinct", o != d)
		}
		// use the previous instance: must not show in the ones handed out later
		data := make([]byte, L)
		for j := 1; j < L; j++ {
			data[j] = 1
		}
		if L == 1 {
			data[0] = 1
		}
		all[len(all)-1].Unpack(data)
		all = append(all, d)
	}
	verifCover("C19.many.end")
}

func init() {
	verifHarnesses["HarnessSelfTestMaxMin"] = HarnessSelfTestMaxMin
}

// HarnessSelfTestMaxMin: the model of math.Max / math.Min against their documented special cases and
// an if-chain, for every pair of float64 bit patterns (two symbolic 64-bit words); validated natively.
func HarnessSelfTestMaxMin(a []int) {
	x, y := math.Float64frombits(nondetU64()), math.Float64frombits(nondetU64())
	mx, mn := math.Max(x, y), math.Min(x, y)
	switch {
	case math.IsInf(x, 1) || math.IsInf(y, 1):
		verifAssert("self.max.inf", math.IsInf(mx, 1))
	case x != x || y != y:
		verifAssert("self.max.nan", mx != mx)
	case x > y:
		verifAssert("self.max.gt", mx == x)
	case y > x:
		verifAssert("self.max.lt", mx == y)
	default:
		verifAssert("self.max.eq", mx == x && (math.Signbit(mx) == (math.Signbit(x) && math.Signbit(y))))
	}
	switch {
	case math.IsInf(x, -1) || math.IsInf(y, -1):
		verifAssert("self.min.inf", math.IsInf(mn, -1))
	case x != x || y != y:
		verifAssert("self.min.nan", mn != mn)
	case x < y:
		verifAssert("self.min.lt", mn == x)
	case y < x:
		verifAssert("self.min.gt", mn == y)
	default:
		verifAssert("self.min.eq", mn == x && (math.Signbit(mn) == (math.Signbit(x) || math.Signbit(y))))
	}
	verifCover("self.maxmin.end")
}
