#!/usr/bin/env python3
"""gen_design_tables.py: refresh the two generated tables of DESIGN.md - the bounds table of section 11a
(from `bin/kv describe`) and the seeded-change table of section 12 (from seeded/*/meta.json)."""
import json, os, re, subprocess, glob
D = '/verif/DESIGN.md'
s = open(D).read()
env = dict(os.environ, GOFLAGS='-mod=mod', GOPROXY='off', GOSUMDB='off', GOTOOLCHAIN='local')
rows = [l for l in subprocess.run(['/verif/bin/kv', 'describe'], capture_output=True, text=True, env=env).stdout.splitlines() if l.startswith('| C')]
hdr = '| id | solver | quick instances | thorough instances | harnesses | bounds (decided by the solver within them) | outside the claim |\n|---|---|---|---|---|---|---|\n'
i = s.index('| id | solver | quick instances')
j = s.index('\n\n', i)
s = s[:i] + hdr + '\n'.join(sorted(rows)) + s[j:]

def key(n):
    m = re.match(r'([A-Z]\d*)_?([A-Z]?)(\d*)', n)
    return (0 if re.match(r'C\d\d_', n) else 1, n)
out = ['| seeded | property | change | caught by | first report |', '|---|---|---|---|---|']
for d in sorted(glob.glob('/verif/seeded/*/'), key=lambda p: key(os.path.basename(p.rstrip('/')))):
    n = os.path.basename(d.rstrip('/'))
    m = json.load(open(d + 'meta.json'))
    caught = [c['check'] for c in m.get('checks_run', []) if c.get('exit') == 1 and c.get('violation_lines', 0) > 0]
    first = ''
    for c in m.get('checks_run', []):
        if c.get('exit') == 1 and c.get('first'):
            first = c['first']; break
    first = re.sub(r' args=\[[^\]]*\]', '', first)
    first = re.sub(r' @ \S+', '', first)
    first = re.sub(r'\(x\d+ paths.*', '', first).strip()
    what = m.get('what', '').replace('|', '/').replace('\n', ' ')[:110]
    cb = ', '.join(dict.fromkeys(caught)) if caught else ('**not detected**' if not m.get('detected') else '')
    out.append('| %s | %s | %s | %s | %s |' % (n, m['property'], what, cb, first[:120].replace('|', '/')))
i = s.index('| seeded | property | change | caught by | first report |')
j = s.find('\n\n', i)
if j < 0:
    j = len(s)
s = s[:i] + '\n'.join(out) + s[j:]
open(D, 'w').write(s)
print(len(rows), 'bounds rows,', len(out) - 2, 'seeded rows')
