package exec

import (
	"fmt"
	"go/constant"
	"go/token"
	"go/types"
	"strings"
	"sync"

	"golang.org/x/tools/go/ssa"

	"kv/term"
)

type retKind int

const (
	retNormal  retKind = iota
	retStop            // harness entry: thread ends
	retDefer           // called by RunDefers: do not advance caller IP
	retUnwind          // called by panic unwinding
	retGo              // goroutine entry
	retDiscard         // engine-initiated call: discard result, advance nothing
)

type deferred struct {
	clo  *Closure
	args []Value
}

type Frame struct {
	Fn         *ssa.Function
	L          map[ssa.Value]Value
	Block      *ssa.BasicBlock
	Prev       *ssa.BasicBlock
	IP         int
	Defers     []deferred
	Ret        retKind
	CallInstr  ssa.Value
	loops      map[int]int
	panicDefer bool // deferred call executed during panic unwinding
	onDone     func(Value)
	retVal     Value // when hasRetVal: the value handed to the caller instead of the frame's own result
	hasRetVal  bool
	onlyCall   *deferred // pseudo frame of a goroutine that runs one intrinsic
}

type stepRes int

const (
	stCont stepRes = iota
	stPark         // thread is at a visible operation, not granted
	stDone         // thread finished
)

func (e *Exec) top(t *Thread) *Frame { return t.Frames[len(t.Frames)-1] }

func (e *Exec) pushCall(t *Thread, clo *Closure, args []Value, call ssa.Value, rk retKind) *Frame {
	fn := clo.Fn
	if fn.Blocks == nil {
		e.unsupported("call of external function %s", fnName(fn))
	}
	if len(t.Frames) > 400 {
		// the same function 100 times on the stack: unbounded recursion, which the Go runtime ends with
		// a fatal (unrecoverable) stack overflow
		same := 0
		for _, fr := range t.Frames {
			if fr.Fn == fn {
				same++
			}
		}
		if same >= 100 {
			panic(pathEnd{kind: "panic", detail: "fatal error: stack overflow (unbounded recursion of " + fnName(fn) + ")", site: e.callerPos(t)})
		}
		e.unsupported("call depth exceeded in %s", fnName(fn))
	}
	e.Stats.Funcs[fnName(fn)] = true
	f := &Frame{Fn: fn, L: make(map[ssa.Value]Value, frameSize(fn)), Block: fn.Blocks[0], Ret: rk, CallInstr: call}
	if len(args) != len(fn.Params) {
		panic(fmt.Sprintf("arity mismatch calling %s: %d vs %d", fnName(fn), len(args), len(fn.Params)))
	}
	for i, p := range fn.Params {
		f.L[p] = copyVal(args[i])
	}
	for i, fv := range fn.FreeVars {
		f.L[fv] = clo.Env[i]
	}
	t.Frames = append(t.Frames, f)
	return f
}

func (e *Exec) get(f *Frame, v ssa.Value) Value {
	switch x := v.(type) {
	case *ssa.Const:
		return e.constVal(x)
	case *ssa.Global:
		return Ptr{Obj: e.globalObj(x)}
	case *ssa.Function:
		return &Closure{Fn: x}
	case *ssa.Builtin:
		return &Closure{Builtin: x.Name()}
	}
	r, ok := f.L[v]
	if !ok {
		panic(fmt.Sprintf("undefined SSA value %s (%T) in %s", v.Name(), v, fnName(f.Fn)))
	}
	return r
}

var frameSizes sync.Map // *ssa.Function -> int

// frameSize is the number of SSA values a frame of fn can hold (parameters, free variables and
// value-defining instructions), capped: the frame map is allocated once at this size.
func frameSize(fn *ssa.Function) int {
	if n, ok := frameSizes.Load(fn); ok {
		return n.(int)
	}
	n := len(fn.Params) + len(fn.FreeVars)
	for _, b := range fn.Blocks {
		for _, in := range b.Instrs {
			if _, ok := in.(ssa.Value); ok {
				n++
			}
		}
	}
	if n > 256 {
		n = 256
	}
	frameSizes.Store(fn, n)
	return n
}

func (e *Exec) constVal(c *ssa.Const) Value {
	if v, ok := e.constCache[c]; ok {
		return v
	}
	t := c.Type()
	if c.Value == nil {
		return e.zero(t)
	}
	switch u := t.Underlying().(type) {
	case *types.Basic:
		switch {
		case u.Info()&types.IsBoolean != 0:
			v := e.C.BoolConst(constant.BoolVal(c.Value))
			e.constCache[c] = v
			return v
		case u.Info()&types.IsInteger != 0:
			var r Value
			if u.Info()&types.IsUnsigned != 0 {
				v, _ := constant.Uint64Val(constant.ToInt(c.Value))
				r = e.C.BVConst(width(u), v)
			} else {
				v, _ := constant.Int64Val(constant.ToInt(c.Value))
				r = e.C.BVConst(width(u), uint64(v))
			}
			e.constCache[c] = r
			return r
		case u.Info()&types.IsFloat != 0:
			if width(u) == 32 {
				v, _ := constant.Float32Val(c.Value)
				return e.C.F32(v)
			}
			v, _ := constant.Float64Val(c.Value)
			return e.C.F64(v)
		case u.Info()&types.IsString != 0:
			return e.strConst(constant.StringVal(c.Value))
		}
	}
	panic(fmt.Sprintf("const of type %v", t))
}

func (e *Exec) globalObj(g *ssa.Global) *Object {
	if o, ok := e.globals[g]; ok {
		return o
	}
	et := g.Type().(*types.Pointer).Elem()
	var v Value
	if g.Pkg != nil && !e.World.InitPkgs[g.Pkg.Pkg.Path()] && !e.foreignInit[g.Pkg] {
		v = e.foreignGlobal(g, et)
		if v == nil {
			// a package-level variable with a real initial value: execute that package's own
			// initialiser once (imports' initialisers are still skipped) and read the result
			e.runForeignInit(g.Pkg)
			if o, ok := e.globals[g]; ok {
				return o
			}
			v = e.zero(et)
		}
	} else {
		v = e.zero(et)
	}
	o := e.newObj(et, v)
	o.Name = g.String()
	// package-level variables of the library itself (not of the harness files) take part in the
	// happens-before check: shared scratch state is exactly what "instances share no state" excludes
	if g.Pkg != nil && e.World.InitPkgs[g.Pkg.Pkg.Path()] && !strings.Contains(e.Prog.Fset.Position(g.Pos()).Filename, "zz_verif_") {
		o.LibGlobal = true
	}
	e.globals[g] = o
	return o
}

// foreignGlobal builds the value of a package-level variable of a package
// whose initialiser is not executed: sentinel errors become unique opaque
// error objects, everything else is the zero value.
func (e *Exec) foreignGlobal(g *ssa.Global, et types.Type) Value {
	if types.Identical(et, types.Universe.Lookup("error").Type()) {
		return e.opaqueError(g.String())
	}
	if st, ok := et.Underlying().(*types.Struct); ok && st.NumFields() == 0 {
		return e.zero(et)
	}
	if g.Pkg != nil && g.Pkg.Pkg.Path() == "golang.org/x/text/encoding/charmap" {
		// a character map is an opaque object carrying its name (exec/charmap.go)
		if v, ok := e.charmapGlobal(g.Name()); ok {
			return v
		}
	}
	switch g.String() {
	case "github.com/vapourismo/knx-go/knx/util.Logger", "time.UTC", "time.Local":
		// nil logger; locations are only passed to stubbed functions
		return e.zero(et)
	}
	return nil
}

// runForeignInit interprets the synthesized init function of a package outside the repository.
func (e *Exec) runForeignInit(pkg *ssa.Package) {
	if e.foreignInit == nil {
		e.foreignInit = map[*ssa.Package]bool{}
	}
	e.foreignInit[pkg] = true
	ini := pkg.Func("init")
	if ini == nil || ini.Blocks == nil {
		return
	}
	saved := e.cur
	t := &Thread{ID: 1000 + len(e.foreignInit), Name: "init:" + pkg.Pkg.Path(), vc: make([]int, 1)}
	if saved != nil {
		t.vc = vcCopy(saved.vc)
		for len(t.vc) <= 0 {
			t.vc = append(t.vc, 0)
		}
	}
	t.ID = 0
	e.pushCall(t, &Closure{Fn: ini}, nil, nil, retStop)
	e.cur = t
	t.state = tsRunning
	for t.state == tsRunning {
		if r := e.step(t, true); r != stCont {
			break
		}
	}
	e.cur = saved
	if t.panicking != nil || t.diedPanic != nil {
		e.unsupported("initialiser of package %s panicked under the engine", pkg.Pkg.Path())
	}
}

func (e *Exec) opaqueError(tag string) Value {
	pkg := e.World.Pkgs["errors"]
	if pkg == nil {
		panic("package errors not loaded")
	}
	typ := pkg.Type("errorString")
	st := e.zero(typ.Type()).(*Struct)
	st.F[0] = &Str{Opaque: true, Tag: tag}
	o := e.newObj(typ.Type(), st)
	return Iface{T: types.NewPointer(typ.Type()), V: Ptr{Obj: o}}
}

func (e *Exec) runInits() {
	// the harness package's init transitively initialises the repo packages
	t := e.newThread("init", nil)
	var names []string
	for p := range e.World.InitPkgs {
		names = append(names, p)
	}
	sortStrings(names)
	for _, p := range names {
		pkg := e.World.Pkgs[p]
		if pkg == nil {
			continue
		}
		ini := pkg.Func("init")
		if ini == nil {
			continue
		}
		e.pushCall(t, &Closure{Fn: ini}, nil, nil, retStop)
		e.cur = t
		t.state = tsRunning
		for t.state == tsRunning {
			if r := e.step(t, true); r != stCont {
				break
			}
		}
		if t.panicking != nil {
			panic(pathEnd{kind: "panic", detail: "in package init: " + t.panicking.msg})
		}
		t.state = tsRunning
		t.Frames = nil
	}
	// remove the init thread
	e.threads = e.threads[:0]
}

// ---- stepping ----------------------------------------------------------------------

// step executes one instruction of thread t. granted tells whether a visible
// operation may be performed now.
func (e *Exec) step(t *Thread, granted bool) (res stepRes) {
	defer func() {
		if r := recover(); r != nil {
			if gp, ok := r.(goPanicSig); ok {
				gp.site = e.where()
				e.startPanic(t, gp)
				res = stCont
				if t.state == tsDone {
					res = stDone
				}
				return
			}
			panic(r)
		}
	}()
	e.steps++
	e.Stats.Instrs++
	if e.steps > e.Cfg.MaxSteps {
		panic(pathEnd{kind: "unwind", detail: "step bound", site: e.where()})
	}
	f := e.top(t)
	if f.onlyCall != nil {
		res, ok := e.builtinOrStub(t, f.onlyCall.clo, f.onlyCall.args, granted)
		_ = res
		if !ok {
			return stPark
		}
		t.Frames = t.Frames[:len(t.Frames)-1]
		t.state = tsDone
		e.threadExit(t)
		return stDone
	}
	in := f.Block.Instrs[f.IP]
	if e.Cfg.Trace {
		e.trace = append(e.trace, fmt.Sprintf("T%d %s: %s", t.ID, e.posOf(in), in.String()))
	}
	switch x := in.(type) {
	case *ssa.Alloc:
		et := x.Type().(*types.Pointer).Elem()
		o := e.newObj(et, e.zero(et))
		o.Name = x.Comment
		f.L[x] = Ptr{Obj: o}
	case *ssa.BinOp:
		f.L[x] = e.binop(x.Op, e.get(f, x.X), e.get(f, x.Y), x.X.Type(), x.Y.Type())
	case *ssa.UnOp:
		if x.Op == token.ARROW {
			return e.recvOp(t, f, x, granted)
		}
		f.L[x] = e.unop(x, e.get(f, x.X))
	case *ssa.Call:
		return e.doCall(t, f, x, granted)
	case *ssa.ChangeInterface:
		f.L[x] = e.get(f, x.X)
	case *ssa.ChangeType:
		f.L[x] = e.get(f, x.X)
	case *ssa.Convert:
		f.L[x] = e.convert(e.get(f, x.X), x.X.Type(), x.Type())
	case *ssa.DebugRef:
	case *ssa.Defer:
		clo, args := e.resolveCallee(f, x.Common())
		f.Defers = append(f.Defers, deferred{clo, args})
	case *ssa.Extract:
		f.L[x] = e.get(f, x.Tuple).(Tuple)[x.Index]
	case *ssa.Field:
		f.L[x] = copyVal(e.get(f, x.X).(*Struct).F[x.Field])
	case *ssa.FieldAddr:
		p := e.get(f, x.X).(Ptr)
		if p.IsNil() {
			e.goPanic("invalid memory address or nil pointer dereference")
		}
		f.L[x] = p.child(x.Field)
	case *ssa.Go:
		clo, args := e.resolveCallee(f, x.Common())
		e.spawn(t, clo, args)
	case *ssa.If:
		c := e.get(f, x.Cond).(*term.T)
		if !c.IsConst() && !e.Cfg.NoIfConv && e.ifConvert(f, x, c) {
			return stCont
		}
		side := e.Branch(c, e.posOf(x))
		if side {
			e.jump(f, f.Block.Succs[0])
		} else {
			e.jump(f, f.Block.Succs[1])
		}
		return stCont
	case *ssa.Index:
		f.L[x] = e.indexVal(e.get(f, x.X), e.get(f, x.Index).(*term.T), x.Index.Type())
	case *ssa.IndexAddr:
		f.L[x] = e.indexAddr(e.get(f, x.X), e.get(f, x.Index).(*term.T), x.Index.Type())
	case *ssa.Jump:
		e.jump(f, f.Block.Succs[0])
		return stCont
	case *ssa.Lookup:
		f.L[x] = e.lookup(x, e.get(f, x.X), e.get(f, x.Index))
	case *ssa.MakeChan:
		n := e.Concretize(e.toInt(e.get(f, x.Size), x.Size.Type()), "makechan")
		f.L[x] = e.newChan(int(n), x.Type())
	case *ssa.MakeClosure:
		env := make([]Value, len(x.Bindings))
		for i, b := range x.Bindings {
			env[i] = e.get(f, b)
		}
		f.L[x] = &Closure{Fn: x.Fn.(*ssa.Function), Env: env}
	case *ssa.MakeInterface:
		f.L[x] = Iface{T: x.X.Type(), V: copyVal(e.get(f, x.X))}
	case *ssa.MakeMap:
		f.L[x] = &Map{K: map[string]int{}, T: x.Type().Underlying().(*types.Map)}
	case *ssa.MakeSlice:
		f.L[x] = e.makeSlice(f, x)
	case *ssa.MapUpdate:
		m := e.get(f, x.Map).(*Map)
		if m == nil {
			e.goPanic("assignment to entry in nil map")
		}
		e.mapSet(m, e.get(f, x.Key), copyVal(e.get(f, x.Value)))
	case *ssa.Next:
		f.L[x] = e.next(x, e.get(f, x.Iter).(*Iter))
	case *ssa.Panic:
		v := e.get(f, x.X)
		panic(goPanicSig{val: v, msg: e.panicText(v)})
	case *ssa.Phi:
		panic("phi reached in step")
	case *ssa.Range:
		f.L[x] = e.rangeIter(e.get(f, x.X))
	case *ssa.Return:
		var rv Value
		switch len(x.Results) {
		case 0:
		case 1:
			rv = copyVal(e.get(f, x.Results[0]))
		default:
			tp := make(Tuple, len(x.Results))
			for i, r := range x.Results {
				tp[i] = copyVal(e.get(f, r))
			}
			rv = tp
		}
		return e.doReturn(t, rv)
	case *ssa.RunDefers:
		if n := len(f.Defers); n > 0 {
			d := f.Defers[n-1]
			f.Defers = f.Defers[:n-1]
			return e.invoke(t, f, d.clo, d.args, nil, retDefer, granted, func() {
				// not granted: put the deferred call back
				f.Defers = append(f.Defers, d)
			})
		}
	case *ssa.Select:
		return e.selectOp(t, f, x, granted)
	case *ssa.Send:
		return e.sendOp(t, f, x, granted)
	case *ssa.Slice:
		f.L[x] = e.sliceOp(f, x)
	case *ssa.SliceToArrayPointer:
		s := e.get(f, x.X).(Slice)
		n := int(x.Type().(*types.Pointer).Elem().Underlying().(*types.Array).Len())
		if s.Len < n {
			e.goPanic("cannot convert slice to array pointer: length too short")
		}
		e.unsupported("SliceToArrayPointer")
	case *ssa.Store:
		e.store(e.get(f, x.Addr).(Ptr), e.get(f, x.Val))
	case *ssa.TypeAssert:
		f.L[x] = e.typeAssert(x, e.get(f, x.X).(Iface))
	default:
		e.unsupported("instruction %T", in)
	}
	f.IP++
	return stCont
}

func (e *Exec) jump(f *Frame, to *ssa.BasicBlock) {
	e.Stats.BlockTrans++
	from := f.Block
	if to.Index <= from.Index {
		if f.loops == nil {
			f.loops = map[int]int{}
		}
		f.loops[to.Index]++
		if f.loops[to.Index] > e.Cfg.Unwind {
			site := ""
			if len(to.Instrs) > 0 {
				site = e.posOf(to.Instrs[len(to.Instrs)-1])
			}
			panic(pathEnd{kind: "unwind", detail: "loop bound " + fmt.Sprint(e.Cfg.Unwind), site: site + " in " + fnName(f.Fn)})
		}
	}
	// phis
	var idx int = -1
	for i, p := range to.Preds {
		if p == from {
			idx = i
			break
		}
	}
	var vals []Value
	n := 0
	for _, in := range to.Instrs {
		phi, ok := in.(*ssa.Phi)
		if !ok {
			break
		}
		vals = append(vals, e.get(f, phi.Edges[idx]))
		n++
	}
	for i := 0; i < n; i++ {
		f.L[to.Instrs[i].(*ssa.Phi)] = vals[i]
	}
	f.Prev = from
	f.Block = to
	f.IP = n
}

func (e *Exec) doReturn(t *Thread, rv Value) stepRes {
	f := e.top(t)
	t.Frames = t.Frames[:len(t.Frames)-1]
	if f.onDone != nil {
		f.onDone(rv)
	}
	if f.hasRetVal {
		rv = f.retVal
	}
	switch f.Ret {
	case retNormal:
		p := e.top(t)
		if f.CallInstr != nil {
			p.L[f.CallInstr] = rv
		}
		p.IP++
	case retDefer:
		// caller re-executes RunDefers
	case retUnwind:
		e.unwind(t)
		if t.state == tsDone {
			return stDone
		}
	case retStop, retGo:
		t.state = tsDone
		e.threadExit(t)
		return stDone
	case retDiscard:
	}
	return stCont
}

// ---- panics ----------------------------------------------------------------------------

func (e *Exec) panicText(v Value) string {
	if i, ok := v.(Iface); ok {
		if s, ok := i.V.(*Str); ok {
			if cs, ok := e.concreteStr(s); ok {
				return cs
			}
			return "<string>"
		}
		if i.T != nil {
			return "<" + i.T.String() + ">"
		}
	}
	return "<value>"
}

func (e *Exec) startPanic(t *Thread, gp goPanicSig) {
	t.panicking = &panicState{val: gp.val, msg: gp.msg, site: gp.site}
	e.unwind(t)
}

func (e *Exec) unwind(t *Thread) {
	for {
		if len(t.Frames) == 0 {
			t.state = tsDone
			e.threadExit(t)
			return
		}
		f := e.top(t)
		if n := len(f.Defers); n > 0 {
			d := f.Defers[n-1]
			f.Defers = f.Defers[:n-1]
			if d.clo.Fn == nil || e.isStub(d.clo.Fn) {
				// intrinsic / builtin deferred call: run inline (never blocks: close, Unlock, Done, Stop)
				func() {
					defer func() {
						if r := recover(); r != nil {
							if gp, ok := r.(goPanicSig); ok {
								t.panicking = &panicState{val: gp.val, msg: gp.msg, site: t.panicking.site}
								return
							}
							panic(r)
						}
					}()
					e.callInline(t, d.clo, d.args)
				}()
				continue
			}
			nf := e.pushCall(t, d.clo, d.args, nil, retUnwind)
			nf.panicDefer = true
			return
		}
		if t.panicking.recovered {
			t.panicking = nil
			if f.Fn.Recover != nil {
				f.Block = f.Fn.Recover
				f.IP = 0
				f.Prev = nil
				return
			}
			// no named results: return zero values
			var rv Value
			res := f.Fn.Signature.Results()
			switch res.Len() {
			case 0:
			case 1:
				rv = e.zero(res.At(0).Type())
			default:
				rv = e.zero(res)
			}
			if e.doReturn(t, rv) == stDone {
				return
			}
			return
		}
		// propagate to caller
		t.Frames = t.Frames[:len(t.Frames)-1]
		if f.Ret == retUnwind {
			// a deferred function panicked itself; continue unwinding the frame below
		}
	}
}

// ---- helpers: integers -------------------------------------------------------------------

// toInt converts an integer-typed term to a 64-bit term (sign or zero extended).
func (e *Exec) toInt(v Value, t types.Type) *term.T {
	x := v.(*term.T)
	if x.Sort.W == 64 {
		return x
	}
	if isSigned(t) {
		return e.C.SExt(x, 64)
	}
	return e.C.ZExt(x, 64)
}

func sortStrings(s []string) {
	for i := 1; i < len(s); i++ {
		for j := i; j > 0 && s[j] < s[j-1]; j-- {
			s[j], s[j-1] = s[j-1], s[j]
		}
	}
}
