//go:build verif

package knx

import (
	"github.com/vapourismo/knx-go/knx/cemi"
	"github.com/vapourismo/knx-go/knx/knxnet"
)

// Group layer, white box: a GroupTunnel on a directly constructed Tunnel (exact, un-encoded frame
// fields) and the unexported serveGroupInbound fed with every cEMI kind.

func init() {
	verifHarnesses["HarnessC12OutWB"] = HarnessC12OutWB
	verifHarnesses["HarnessC12OutSeqWB"] = HarnessC12OutSeqWB
	verifHarnesses["HarnessC12In"] = HarnessC12In
}

// c12Snapshot copies the L_Data part of a tunnelling request at the moment it is handed to the
// socket (what a real socket would have put on the wire then): the in-memory socket keeps object
// references, and a payload buffer that the sender legitimately reuses after Send has returned must
// not look like a changed frame.
func c12Snapshot(p knxnet.ServicePackable) *cemi.LData {
	req, ok := p.(*knxnet.TunnelReq)
	verifAssert("C12.out.kind", ok)
	m, ok := req.Payload.(*cemi.LDataReq)
	verifAssert("C12.out.req", ok && m.MessageCode() == cemi.LDataReqCode)
	ld := m.LData
	if app, ok := ld.Data.(*cemi.AppData); ok {
		cp := *app
		cp.Data = append([]byte(nil), app.Data...)
		ld.Data = &cp
	}
	return &ld
}

// HarnessC12OutWB: a = {payload length}: GroupTunnel.Send on a TCP-mode tunnel over the in-memory socket.
func HarnessC12OutWB(a []int) {
	n := a[0]
	ev := c12Event(n)
	sock := newVSock()
	var sent []*cemi.LData
	sock.onSend = func(p knxnet.ServicePackable) { sent = append(sent, c12Snapshot(p)) }
	gt := GroupTunnel{Tunnel: &Tunnel{sock: sock, config: TunnelConfig{UseTCP: true}, channel: nondetU8()}}
	err := gt.Send(ev)
	verifAssert("C12.out.sent", err == nil && len(sent) == 1)
	c12CheckLData(sent[0], ev, n, false)
	verifCover("C12.outwb.end")
}

// HarnessC12OutSeqWB: a = {n1, n2}: two events through the same directly constructed group tunnel.
func HarnessC12OutSeqWB(a []int) {
	ev1, ev2 := c12Event(a[0]), c12Event(a[1])
	sock := newVSock()
	var sent []*cemi.LData
	sock.onSend = func(p knxnet.ServicePackable) { sent = append(sent, c12Snapshot(p)) }
	gt := GroupTunnel{Tunnel: &Tunnel{sock: sock, config: TunnelConfig{UseTCP: true}, channel: nondetU8()}}
	verifAssert("C12.out.sent", gt.Send(ev1) == nil && gt.Send(ev2) == nil && len(sent) == 2)
	c12CheckLData(sent[0], ev1, a[0], false)
	c12CheckLData(sent[1], ev2, a[1], false)
	verifCover("C12.outseqwb.end")
}

// HarnessC12In: a = {cEMI kind as in C02 (0..10), payload length}: one message of the given kind
// fed to the real serveGroupInbound goroutine; it surfaces exactly when it is an L_Data.ind to a
// group address carrying a group read/response/write.
func HarnessC12In(a []int) {
	kind, n := a[0], a[1]
	var msg cemi.Message
	var ld *cemi.LData
	mk := func() cemi.LData {
		l := cemi.LData{Control1: cemi.ControlField1(nondetU8()), Control2: cemi.ControlField2(nondetU8()),
			Source: cemi.IndividualAddr(nondetU16()), Destination: nondetU16()}
		if kind <= 2 {
			l.Data = &cemi.AppData{Numbered: nondetBool(), SeqNumber: nondetU8() & 15, Command: cemi.APCI(nondetU8() & 15), Data: nondetBytes(n)}
		} else {
			l.Data = &cemi.ControlData{Numbered: nondetBool(), SeqNumber: nondetU8() & 15, Command: nondetU8() & 3}
		}
		return l
	}
	switch kind {
	case 0, 3:
		m := &cemi.LDataReq{LData: mk()}
		msg, ld = m, &m.LData
	case 1, 4:
		m := &cemi.LDataCon{LData: mk()}
		msg, ld = m, &m.LData
	case 2, 5:
		m := &cemi.LDataInd{LData: mk()}
		msg, ld = m, &m.LData
	case 6:
		msg = &cemi.LRawReq{LRaw: nondetBytes(n)}
	case 7:
		msg = &cemi.LRawCon{LRaw: nondetBytes(n)}
	case 8:
		msg = &cemi.LRawInd{LRaw: nondetBytes(n)}
	case 9:
		m := cemi.LBusmonInd(nondetBytes(n))
		msg = &m
	default:
		msg = &cemi.UnsupportedMessage{Code: cemi.MessageCode(nondetU8()), Data: nondetBytes(n)}
	}
	in := make(chan cemi.Message)
	out := make(chan GroupEvent)
	go serveGroupInbound(in, out)
	go func() {
		in <- msg
		close(in)
	}()
	ev, open := <-out
	expect := false
	if kind == 2 {
		app := ld.Data.(*cemi.AppData)
		expect = uint8(ld.Control2)&0x80 != 0 && app.Command < 3
	}
	verifObserve("surfaced", open)
	if expect {
		verifCover("C12.in.surfaced")
		verifAssert("C12.in.surfaces", open)
		app := ld.Data.(*cemi.AppData)
		verifAssert("C12.in.fields", uint8(ev.Command) == uint8(app.Command) && ev.Source == ld.Source && uint16(ev.Destination) == ld.Destination)
		verifAssert("C12.in.payload_len", len(ev.Data) == n)
		for i := 0; i < n; i++ {
			verifAssert("C12.in.payload", ev.Data[i] == app.Data[i])
		}
		_, again := <-out
		verifAssert("C12.in.closes", !again)
	} else {
		verifCover("C12.in.filtered")
		verifAssert("C12.in.filtered", !open)
	}
}
