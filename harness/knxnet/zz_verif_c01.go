//go:build verif

package knxnet

func init() {
	verifHarnesses["HarnessC01Unpack"] = HarnessC01Unpack
}

// HarnessC01Unpack: a = {service id (or -1: header symbolic too), L, G}. The first L bytes
// of one underlying array are the datagram, the following G bytes are remnants of an
// earlier, longer datagram (garbage). G = 0 makes an over-read a panic, G > 0 a stale read.
func HarnessC01Unpack(a []int) {
	svc, L, G := a[0], a[1], a[2]
	arr := make([]byte, L+G)
	in := nondetBytes(L)
	garbage := nondetGarbage(G)
	copy(arr, in)
	copy(arr[L:], garbage)
	if svc >= 0 {
		hdr := []byte{6, 0x10, byte(svc >> 8), byte(svc)}
		for i := 0; i < 4 && i < L; i++ {
			arr[i] = hdr[i]
		}
	}
	if len(a) > 3 && a[3] != 0 && L >= 8 {
		// case split for description responses: the first DIB's type octet is fixed
		arr[7] = byte(a[3])
	}
	verifRegion(arr, L)
	var srv Service
	n, err := Unpack(arr[:L:L+G], &srv)
	verifObserve("n", n)
	verifObserve("ok", err == nil)
	if err == nil {
		verifCover("C01.accepted")
		verifAssert("C01.consumed_le_len", n <= uint(L))
		verifAssert("C01.value_set", srv != nil)
		verifObserveNative("srv", srv)
		if d, ok := srv.(*DescriptionRes); ok {
			verifObserveNative("name", d.DeviceHardware.FriendlyName)
		}
		if d, ok := srv.(*SearchRes); ok {
			verifObserveNative("name", d.DescriptionB.DeviceHardware.FriendlyName)
		}
	} else {
		verifCover("C01.rejected")
	}
}
