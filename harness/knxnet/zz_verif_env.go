//go:build verif

package knxnet

import (
	"context"
	"errors"
	"net"
	"sync"
	"time"
)

// Environment model used by the harnesses of package knx (DESIGN 2.6): the engine redirects
// DialTunnelUDP/TCP, ListenRouterOnInterface and HostInfoFromAddress to these functions.

type VerifAddr struct{ Net string }

func (a VerifAddr) Network() string { return a.Net }
func (a VerifAddr) String() string  { return "192.0.2.7:3671" }

var (
	VerifInbound       chan Service
	VerifConn          *c15Conn
	VerifHostInfoCalls int
	VerifHostInfoArg   net.Addr
	VerifDials         int
)

// Socket values are built by constructor variables that two tiny files set - one with keyed
// composite literals (survives added fields), one with positional ones (survives renamed fields).
// The loader drops whichever no longer compiles; if both are gone the instance is unsupported.
var (
	verifNewTunnelSocket func(conn net.Conn, inbound <-chan Service) *TunnelSocket
	verifNewRouterSocket func(conn *net.UDPConn, addr *net.UDPAddr, inbound <-chan Service) *RouterSocket
)

func verifMkTunnelSocket(conn net.Conn, inbound <-chan Service) *TunnelSocket {
	if verifNewTunnelSocket == nil {
		verifUnsupported("no socket constructor file compiles against this tree")
	}
	return verifNewTunnelSocket(conn, inbound)
}

func verifMkRouterSocket(conn *net.UDPConn, addr *net.UDPAddr, inbound <-chan Service) *RouterSocket {
	if verifNewRouterSocket == nil {
		verifUnsupported("no socket constructor file compiles against this tree")
	}
	return verifNewRouterSocket(conn, addr, inbound)
}

var VerifHostInfo = HostInfo{Protocol: UDP4, Address: Address{192, 0, 2, 7}, Port: 3671}

func VerifReset(network string) {
	VerifInbound = make(chan Service)
	VerifConn = &c15Conn{local: VerifAddr{network}}
	VerifHostInfoCalls, VerifHostInfoArg, VerifDials = 0, nil, 0
}

// VerifOnWrite installs the environment hook called with every datagram / stream chunk the client writes.
func VerifOnWrite(f func([]byte)) { VerifConn.onWrite = f }

// VerifWriteFail makes every write from now on fail (on = false: writes work again).
func VerifWriteFail(on bool) {
	VerifConn.failFrom = 0
	if on {
		VerifConn.failFrom = VerifConn.writes + 1
	}
}

func VerifConnWrites() int       { return VerifConn.writes }
func VerifConnLast() []byte      { return VerifConn.last }
func VerifConnClosed() int       { return VerifConn.closed }
func VerifNetWrites() int        { return verifNetWrites() }
func VerifNetWrite(i int) []byte { return verifNetWrite(i) }
func VerifNetClosed() int        { return verifNetClosed() }

func verifDialTunnelUDP(address string) (*TunnelSocket, error) {
	VerifDials++
	return verifMkTunnelSocket(VerifConn, VerifInbound), nil
}

func verifDialTunnelTCP(address string) (*TunnelSocket, error) {
	VerifDials++
	return verifMkTunnelSocket(VerifConn, VerifInbound), nil
}

func verifListenRouter(ifi *net.Interface, multicastAddress string, loop bool) (*RouterSocket, error) {
	VerifDials++
	return verifMkRouterSocket(&net.UDPConn{}, &net.UDPAddr{Port: 3671}, VerifInbound), nil
}

func verifHostInfoFromAddress(address net.Addr) (HostInfo, error) {
	VerifHostInfoCalls++
	VerifHostInfoArg = address
	return VerifHostInfo, nil
}

// verifCtx models context.WithTimeout / WithCancel for the engine: Done is closed by a timer of
// the virtual clock or by cancel, whichever comes first (parents are not propagated).
type verifCtx struct {
	done chan struct{}
	mu   sync.Mutex
	err  error
}

func (c *verifCtx) Deadline() (time.Time, bool)       { return time.Time{}, false }
func (c *verifCtx) Done() <-chan struct{}             { return c.done }
func (c *verifCtx) Value(key interface{}) interface{} { return nil }
func (c *verifCtx) Err() error {
	c.mu.Lock()
	defer c.mu.Unlock()
	return c.err
}
func (c *verifCtx) finish(err error) {
	c.mu.Lock()
	if c.err == nil {
		c.err = err
		close(c.done)
	}
	c.mu.Unlock()
}

func VerifContextWithTimeout(parent context.Context, d time.Duration) (context.Context, context.CancelFunc) {
	c := &verifCtx{done: make(chan struct{})}
	t := time.AfterFunc(d, func() { c.finish(context.DeadlineExceeded) })
	return c, func() {
		t.Stop()
		c.finish(context.Canceled)
	}
}

func VerifContextWithCancel(parent context.Context) (context.Context, context.CancelFunc) {
	c := &verifCtx{done: make(chan struct{})}
	return c, func() { c.finish(context.Canceled) }
}

// c15Conn is a net.Conn that records what is written.
type c15Conn struct {
	writes   int
	last     []byte
	closed   int
	local    net.Addr
	onWrite  func([]byte) // environment hook of the black-box tunnel harnesses (package knx)
	failFrom int          // fail every write from this one on (0: never; n: the n-th write and later)
}

func (c *c15Conn) Read(b []byte) (int, error) { return 0, nil }
func (c *c15Conn) Write(b []byte) (int, error) {
	if c.closed > 0 || (c.failFrom > 0 && c.writes+1 >= c.failFrom) {
		return 0, errC15Write // a closed connection refuses writes, as the kernel's does
	}
	c.writes++
	c.last = append([]byte(nil), b...)
	if c.onWrite != nil {
		c.onWrite(c.last)
	}
	return len(b), nil
}

var errC15Write = errors.New("verif: write failed")

func (c *c15Conn) Close() error {
	c.closed++
	return nil
}
func (c *c15Conn) LocalAddr() net.Addr                { return c.local }
func (c *c15Conn) RemoteAddr() net.Addr               { return nil }
func (c *c15Conn) SetDeadline(t time.Time) error      { return nil }
func (c *c15Conn) SetReadDeadline(t time.Time) error  { return nil }
func (c *c15Conn) SetWriteDeadline(t time.Time) error { return nil }
