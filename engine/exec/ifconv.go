package exec

import (
	"go/token"
	"go/types"

	"golang.org/x/tools/go/ssa"

	"kv/term"
)

// If-conversion: when a symbolic branch opens a small acyclic region of pure
// instructions that re-joins in a single block, the region is evaluated once
// and the join's phis become ite terms, instead of forking the path. This is
// what keeps `a && b || c` in library predicates and harness oracles from
// multiplying paths.

type regionInfo struct {
	ok     bool
	join   *ssa.BasicBlock
	order  []*ssa.BasicBlock // topological order of region blocks
	member map[*ssa.BasicBlock]bool
}

func pureInstr(in ssa.Instruction) bool {
	switch x := in.(type) {
	case *ssa.BinOp:
		switch x.Op {
		case token.QUO, token.REM:
			if c, ok := x.Y.(*ssa.Const); ok && c.Value != nil && isInt(c.Type()) && c.Int64() != 0 {
				return true
			}
			if isFloat(x.X.Type()) {
				return true
			}
			return false
		case token.SHL, token.SHR:
			if isSigned(x.Y.Type()) {
				_, isConst := x.Y.(*ssa.Const)
				return isConst
			}
			return true
		case token.ADD:
			return !isString(x.X.Type()) || true
		}
		switch x.X.Type().Underlying().(type) {
		case *types.Basic, *types.Pointer:
			return true
		}
		return false
	case *ssa.UnOp:
		return x.Op == token.NOT || x.Op == token.SUB || x.Op == token.XOR
	case *ssa.Convert:
		f, t := x.X.Type().Underlying(), x.Type().Underlying()
		fb, ok1 := f.(*types.Basic)
		tb, ok2 := t.(*types.Basic)
		if !ok1 || !ok2 {
			return false
		}
		num := types.IsInteger | types.IsFloat
		return fb.Info()&num != 0 && tb.Info()&num != 0
	case *ssa.ChangeType, *ssa.Phi, *ssa.Field, *ssa.Extract, *ssa.DebugRef:
		return true
	}
	return false
}

func pureBlock(b *ssa.BasicBlock) bool {
	n := len(b.Instrs)
	if n == 0 || n > 40 {
		return false
	}
	for _, in := range b.Instrs[:n-1] {
		if !pureInstr(in) {
			return false
		}
	}
	switch b.Instrs[n-1].(type) {
	case *ssa.If, *ssa.Jump:
		return true
	}
	return false
}

func (e *Exec) region(b *ssa.BasicBlock) *regionInfo {
	if e.regions == nil {
		e.regions = map[*ssa.BasicBlock]*regionInfo{}
	}
	if r, ok := e.regions[b]; ok {
		return r
	}
	r := &regionInfo{member: map[*ssa.BasicBlock]bool{}}
	e.regions[b] = r
	// collect pure blocks reachable from b's successors; non-pure blocks are exits
	exits := map[*ssa.BasicBlock]bool{}
	var visit func(x *ssa.BasicBlock) bool
	visit = func(x *ssa.BasicBlock) bool {
		if x == b {
			return false // cycle back to the branch
		}
		if r.member[x] || exits[x] {
			return true
		}
		if !pureBlock(x) || len(r.member) >= 24 {
			exits[x] = true
			return true
		}
		r.member[x] = true
		for _, s := range x.Succs {
			if !visit(s) {
				return false
			}
		}
		return true
	}
	for _, s := range b.Succs {
		if !visit(s) {
			return r
		}
	}
	// a pure block may itself be the natural join: shrink the region until
	// there is exactly one exit. Strategy: candidate joins are exits plus
	// members; pick the exit set; if more than one exit, fail.
	if len(exits) != 1 {
		// try: treat members with >1 preds whose removal yields one exit — the common
		// case is a pure join block (e.g. ending in Return is impure, so rare). Give up.
		return r
	}
	for j := range exits {
		r.join = j
	}
	// every member's preds must be inside region or b
	for m := range r.member {
		for _, p := range m.Preds {
			if p != b && !r.member[p] {
				return r
			}
		}
	}
	// topological order (and acyclicity)
	state := map[*ssa.BasicBlock]int{}
	var order []*ssa.BasicBlock
	var dfs func(x *ssa.BasicBlock) bool
	dfs = func(x *ssa.BasicBlock) bool {
		switch state[x] {
		case 1:
			return false
		case 2:
			return true
		}
		state[x] = 1
		for _, s := range x.Succs {
			if r.member[s] && !dfs(s) {
				return false
			}
		}
		state[x] = 2
		order = append(order, x)
		return true
	}
	for m := range r.member {
		if !dfs(m) {
			return r
		}
	}
	for i, j := 0, len(order)-1; i < j; i, j = i+1, j-1 {
		order[i], order[j] = order[j], order[i]
	}
	r.order = order
	// join must have phis fed only through edges we can describe (always true) and
	// must not be b itself
	if r.join == b {
		return r
	}
	r.ok = true
	return r
}

func scalarOK(v Value) bool {
	_, ok := v.(*term.T)
	return ok
}

// ifConvert tries to execute the region opened by the If at the end of f.Block.
func (e *Exec) ifConvert(f *Frame, x *ssa.If, cond *term.T) bool {
	b := f.Block
	r := e.region(b)
	if !r.ok {
		return false
	}
	c := e.C
	bc := map[*ssa.BasicBlock]*term.T{} // block condition
	type edge struct{ from, to *ssa.BasicBlock }
	ec := map[edge]*term.T{}
	addEdge := func(from, to *ssa.BasicBlock, t *term.T) {
		k := edge{from, to}
		if o, ok := ec[k]; ok {
			ec[k] = c.BOr(o, t)
		} else {
			ec[k] = t
		}
	}
	addEdge(b, b.Succs[0], cond)
	addEdge(b, b.Succs[1], c.BNot(cond))
	// phi evaluation helper
	phiVal := func(blk *ssa.BasicBlock, phi *ssa.Phi) (Value, bool) {
		var res *term.T
		for i, p := range blk.Preds {
			t, ok := ec[edge{p, blk}]
			if !ok {
				continue
			}
			v := e.get(f, phi.Edges[i])
			vt, ok := v.(*term.T)
			if !ok {
				return nil, false
			}
			if res == nil {
				res = vt
			} else {
				res = c.Ite(t, vt, res)
			}
		}
		if res == nil {
			return nil, false
		}
		return res, true
	}
	// speculative locals are written to a scratch map first
	saved := map[ssa.Value]Value{}
	set := func(v ssa.Value, val Value) {
		if old, ok := f.L[v]; ok {
			saved[v] = old
		} else {
			saved[v] = nil
		}
		f.L[v] = val
	}
	undo := func() {
		for k, v := range saved {
			if v == nil {
				delete(f.L, k)
			} else {
				f.L[k] = v
			}
		}
	}
	ok := func() (good bool) {
		defer func() {
			if r := recover(); r != nil {
				good = false
				if _, isEnd := r.(pathEnd); isEnd {
					return
				}
				if _, isGP := r.(goPanicSig); isGP {
					return
				}
				panic(r)
			}
		}()
		for _, blk := range r.order {
			var cnd *term.T
			for _, p := range blk.Preds {
				if t, ok := ec[edge{p, blk}]; ok {
					if cnd == nil {
						cnd = t
					} else {
						cnd = c.BOr(cnd, t)
					}
				}
			}
			if cnd == nil {
				cnd = c.False
			}
			bc[blk] = cnd
			n := len(blk.Instrs)
			for _, in := range blk.Instrs[:n-1] {
				switch y := in.(type) {
				case *ssa.Phi:
					v, ok := phiVal(blk, y)
					if !ok {
						return false
					}
					set(y, v)
				case *ssa.BinOp:
					a, bb := e.get(f, y.X), e.get(f, y.Y)
					if !scalarOK(a) || !scalarOK(bb) {
						return false
					}
					set(y, e.binop(y.Op, a, bb, y.X.Type(), y.Y.Type()))
				case *ssa.UnOp:
					a := e.get(f, y.X)
					if !scalarOK(a) {
						return false
					}
					set(y, e.unop(y, a))
				case *ssa.Convert:
					set(y, e.convert(e.get(f, y.X), y.X.Type(), y.Type()))
				case *ssa.ChangeType:
					set(y, e.get(f, y.X))
				case *ssa.Field:
					set(y, copyVal(e.get(f, y.X).(*Struct).F[y.Field]))
				case *ssa.Extract:
					set(y, e.get(f, y.Tuple).(Tuple)[y.Index])
				case *ssa.DebugRef:
				default:
					return false
				}
			}
			switch tm := blk.Instrs[n-1].(type) {
			case *ssa.If:
				ct, ok := e.get(f, tm.Cond).(*term.T)
				if !ok {
					return false
				}
				addEdge(blk, blk.Succs[0], c.BAnd(cnd, ct))
				addEdge(blk, blk.Succs[1], c.BAnd(cnd, c.BNot(ct)))
			case *ssa.Jump:
				addEdge(blk, blk.Succs[0], cnd)
			}
		}
		// join phis
		j := r.join
		var vals []Value
		nphi := 0
		for _, in := range j.Instrs {
			phi, isPhi := in.(*ssa.Phi)
			if !isPhi {
				break
			}
			v, ok := phiVal(j, phi)
			if !ok {
				return false
			}
			vals = append(vals, v)
			nphi++
		}
		for i := 0; i < nphi; i++ {
			set(j.Instrs[i].(*ssa.Phi), vals[i])
		}
		f.Prev = b
		f.Block = j
		f.IP = nphi
		return true
	}()
	if !ok {
		undo()
		return false
	}
	e.Stats.BlockTrans += len(r.order) + 1
	e.Stats.IfConv++
	return true
}
