//go:build verif

package knx

import (
	"time"

	"github.com/vapourismo/knx-go/knx/cemi"
	"github.com/vapourismo/knx-go/knx/knxnet"
)

// Group layer, black box: the clients are built by NewGroupTunnel / NewGroupRouter on the redirected
// sockets; what they send is read back from the bytes written. No unexported identifier of the
// library is named in this file (the white-box instances are in zz_verif_c12_wb.go).

func init() {
	verifHarnesses["HarnessC12Out"] = HarnessC12Out
	verifHarnesses["HarnessC12E2E"] = HarnessC12E2E
	verifHarnesses["HarnessC12OutSeq"] = HarnessC12OutSeq
	verifHarnesses["HarnessC12InBB"] = HarnessC12InBB
	verifHarnesses["HarnessC12CloseBB"] = HarnessC12CloseBB
}

// HarnessC12CloseBB: a = {0 router | 1 tunnel, events pending 0..2}: group events arrive while the
// application is not reading, the client is closed, and only then the application ranges over the
// group Inbound channel: the loop ends (the group channel closes when the client's does), having
// seen at most the pending events, in order.
func HarnessC12CloseBB(a []int) {
	pending := a[1]
	mk := func(i int) cemi.Message {
		return &cemi.LDataInd{LData: cemi.LData{Control2: cemi.Control2GroupAddr, Destination: uint16(100 + i),
			Data: &cemi.AppData{Command: cemi.GroupValueWrite, Data: []byte{byte(i)}}}}
	}
	var events <-chan GroupEvent
	if a[0] == 0 {
		gr := newGroupRouterEnv()
		in := knxnet.VerifInbound
		events = gr.Inbound()
		for i := 0; i < pending; i++ {
			in <- &knxnet.RoutingInd{Payload: mk(i)}
		}
		verifQuiesce()
		gr.Close()
		close(in) // the socket's receiver ends after Close
	} else {
		gt, g, c := newBBGroupTunnelCh()
		events = gt.Inbound()
		for i := 0; i < pending; i++ {
			g.in <- &knxnet.TunnelReq{Channel: c, SeqNumber: uint8(i), Payload: mk(i)}
		}
		verifQuiesce()
		gt.Close()
	}
	verifQuiesce()
	n := 0
	for ev := range events {
		verifAssert("C12.close.pending_in_order", int(ev.Destination) == 100+n)
		n++
	}
	verifAssert("C12.close.at_most_the_pending_events", n <= pending)
	verifCover("C12.close.end")
}

func c12Event(n int) GroupEvent {
	return GroupEvent{Command: GroupCommand(nondetChoice(3)), Source: cemi.IndividualAddr(nondetU16()),
		Destination: cemi.GroupAddr(nondetU16()), Data: nondetBytes(n)}
}

// c12CheckLData: wire = the frame was read back from its byte encoding, which keeps only the low six
// bits of the first payload byte and carries an empty payload as one zero byte.
func c12CheckLData(ld *cemi.LData, ev GroupEvent, n int, wire bool) {
	verifAssert("C12.out.group_flag", ld.Control2.IsGroupAddr())
	verifAssert("C12.out.hops", uint8(ld.Control2)>>4&7 == 6)
	verifAssert("C12.out.prio_low", uint8(ld.Control1)>>2&3 == 3)
	verifAssert("C12.out.stdframe", (uint8(ld.Control1)&0x80 != 0) == (n <= 15))
	verifAssert("C12.out.addr", ld.Source == ev.Source && ld.Destination == uint16(ev.Destination))
	app, ok := ld.Data.(*cemi.AppData)
	verifAssert("C12.out.appdata", ok)
	verifAssert("C12.out.apci", uint8(app.Command) == uint8(ev.Command) && !app.Numbered)
	if wire && n == 0 {
		verifAssert("C12.out.payload_len", len(app.Data) == 1 && app.Data[0] == 0)
		return
	}
	verifAssert("C12.out.payload_len", len(app.Data) == n)
	for i := 0; i < n; i++ {
		if wire && i == 0 {
			verifAssert("C12.out.payload", app.Data[0] == ev.Data[0]&0x3F)
			continue
		}
		verifAssert("C12.out.payload", app.Data[i] == ev.Data[i])
	}
}

// c12RouterLData decodes datagram i written by the router client built by newGroupRouterEnv.
func c12RouterLData(i int) *cemi.LData {
	var srv knxnet.Service
	_, err := knxnet.Unpack(verifNetWrite(i), &srv)
	verifAssert("C12.out.decodes", err == nil)
	ind, ok := srv.(*knxnet.RoutingInd)
	verifAssert("C12.out.kind", ok)
	m, ok := ind.Payload.(*cemi.LDataInd)
	verifAssert("C12.out.ind", ok && m.MessageCode() == cemi.LDataIndCode)
	return &m.LData
}

// newBBGroupTunnel builds the group tunnel client through its real constructor (see zz_verif_tunnel.go).
func newBBGroupTunnel() (GroupTunnel, *tunGW) {
	gt, g, _ := newBBGroupTunnelCh()
	return gt, g
}

func newBBGroupTunnelCh() (GroupTunnel, *tunGW, uint8) {
	c := nondetU8()
	g := newTunGW("udp", func(f knxnet.Service) []knxnet.Service {
		switch r := f.(type) {
		case *knxnet.ConnReq:
			return []knxnet.Service{&knxnet.ConnRes{Channel: c, Status: 0}}
		case *knxnet.ConnStateReq:
			return []knxnet.Service{&knxnet.ConnStateRes{Channel: r.Channel, Status: 0}}
		case *knxnet.TunnelReq:
			return []knxnet.Service{&knxnet.TunnelRes{Channel: r.Channel, SeqNumber: r.SeqNumber, Status: 0}}
		}
		return nil
	})
	gt, err := NewGroupTunnel("192.0.2.1:3671", TunnelConfig{ResendInterval: 2 * time.Second, HeartbeatInterval: 100 * time.Second, ResponseTimeout: 5 * time.Second})
	if err != nil {
		verifFail("env.tunnel_constructor")
	}
	return gt, g, c
}

// c12TunnelLData returns the L_Data part of every tunnelling request the gateway has seen.
func c12TunnelLData(g *tunGW) []*cemi.LData {
	var out []*cemi.LData
	for _, f := range g.frames {
		if req, ok := f.(*knxnet.TunnelReq); ok {
			m, ok := req.Payload.(*cemi.LDataReq)
			verifAssert("C12.out.req", ok && m.MessageCode() == cemi.LDataReqCode)
			out = append(out, &m.LData)
		}
	}
	return out
}

// newGroupRouterEnv builds the group router client through its real constructor (see zz_verif_router.go).
func newGroupRouterEnv() GroupRouter {
	knxnet.VerifReset("udp")
	gr, err := NewGroupRouter("224.0.23.12:3671", RouterConfig{RetainCount: 2})
	if err != nil {
		verifFail("env.router_constructor")
	}
	return gr
}

// HarnessC12Out: a = {1 group router | 2 group tunnel, payload length}: one group event sent through
// the group client leaves as exactly one L_Data.ind / L_Data.req frame with the prescribed fields.
func HarnessC12Out(a []int) {
	n := a[1]
	ev := c12Event(n)
	if a[0] == 2 {
		gt, g := newBBGroupTunnel()
		err := gt.Send(ev)
		lds := c12TunnelLData(g)
		verifAssert("C12.out.sent", err == nil && len(lds) == 1)
		c12CheckLData(lds[0], ev, n, true)
	} else {
		gr := newGroupRouterEnv()
		err := gr.Send(ev)
		verifAssert("C12.out.sent", err == nil && verifNetWrites() == 1)
		c12CheckLData(c12RouterLData(0), ev, n, true)
	}
	verifCover("C12.out.end")
}

// HarnessC12OutSeq: a = {1 router | 2 tunnel, n1, n2}: two events sent one after the other through
// the same client: the second frame must not depend on the first (shared template state).
func HarnessC12OutSeq(a []int) {
	ev1, ev2 := c12Event(a[1]), c12Event(a[2])
	var lds [2]*cemi.LData
	if a[0] == 2 {
		gt, g := newBBGroupTunnel()
		verifAssert("C12.out.sent", gt.Send(ev1) == nil && gt.Send(ev2) == nil)
		got := c12TunnelLData(g)
		verifAssert("C12.out.sent", len(got) == 2)
		lds[0], lds[1] = got[0], got[1]
	} else {
		gr := newGroupRouterEnv()
		verifAssert("C12.out.sent", gr.Send(ev1) == nil)
		verifQuiesce()
		verifAssert("C12.out.sent", gr.Send(ev2) == nil && verifNetWrites() == 2)
		for i := range lds {
			lds[i] = c12RouterLData(i)
		}
	}
	c12CheckLData(lds[0], ev1, a[1], true)
	c12CheckLData(lds[1], ev2, a[2], true)
	verifCover("C12.outseq.end")
}

// HarnessC12E2E: a = {payload length}: an event sent by a group router client, taken from the bytes
// it wrote and delivered as a routing indication to a group router client's socket, surfaces on the
// group Inbound channel unchanged up to the two documented exceptions; closing the socket's channel
// closes the group channel.
func HarnessC12E2E(a []int) {
	n := a[0]
	ev := c12Event(n)
	gr := newGroupRouterEnv()
	verifAssert("C12.e2e.sent", gr.Send(ev) == nil && verifNetWrites() == 1)
	var srv knxnet.Service
	_, err := knxnet.Unpack(verifNetWrite(0), &srv)
	verifAssert("C12.e2e.decodes", err == nil)
	ind, ok := srv.(*knxnet.RoutingInd)
	verifAssert("C12.e2e.kind", ok)
	in := knxnet.VerifInbound
	go func() {
		in <- ind
		close(in)
	}()
	got, open := <-gr.Inbound()
	verifAssert("C12.e2e.arrives", open)
	verifAssert("C12.e2e.fields", got.Command == ev.Command && got.Source == ev.Source && got.Destination == ev.Destination)
	if n == 0 {
		verifAssert("C12.e2e.empty_is_zero_byte", len(got.Data) == 1 && got.Data[0] == 0)
	} else {
		verifAssert("C12.e2e.len", len(got.Data) == n)
		verifAssert("C12.e2e.first_byte", got.Data[0] == ev.Data[0]&0x3F)
		for i := 1; i < n; i++ {
			verifAssert("C12.e2e.payload", got.Data[i] == ev.Data[i])
		}
	}
	_, again := <-gr.Inbound()
	verifAssert("C12.e2e.group_channel_closes_with_the_client", !again)
	verifObserve("len", len(got.Data))
	verifCover("C12.e2e.end")
}

// HarnessC12InBB: a = {0 router | 1 tunnel, application code 0..15, group address flag, payload
// length}: one L_Data.ind with symbolic fields enters through the socket of a client built by
// NewGroupRouter / NewGroupTunnel; it surfaces on the group Inbound channel exactly when it targets
// a group address and carries a group read/response/write.
func HarnessC12InBB(a []int) {
	n := a[3]
	ld := cemi.LData{Control1: cemi.ControlField1(nondetU8()), Control2: cemi.ControlField2(nondetU8()&0x7F | uint8(a[2])<<7),
		Source: cemi.IndividualAddr(nondetU16()), Destination: nondetU16(),
		Data: &cemi.AppData{Numbered: nondetBool(), SeqNumber: nondetU8() & 15, Command: cemi.APCI(a[1]), Data: nondetBytes(n)}}
	msg := &cemi.LDataInd{LData: ld}
	var events <-chan GroupEvent
	var feed func()
	if a[0] == 0 {
		gr := newGroupRouterEnv()
		in := knxnet.VerifInbound
		events = gr.Inbound()
		feed = func() {
			in <- &knxnet.RoutingInd{Payload: msg}
			close(in)
		}
	} else {
		gt, g, c := newBBGroupTunnelCh()
		events = gt.Inbound()
		feed = func() {
			g.in <- &knxnet.TunnelReq{Channel: c, SeqNumber: 0, Payload: msg}
			close(g.in)
		}
	}
	go feed()
	ev, open := <-events
	expect := a[2] == 1 && a[1] < 3
	if expect {
		verifCover("C12.inbb.surfaced")
		verifAssert("C12.in.surfaces", open)
		verifAssert("C12.in.fields", int(ev.Command) == a[1] && ev.Source == ld.Source && uint16(ev.Destination) == ld.Destination)
		verifAssert("C12.in.payload_len", len(ev.Data) == n)
		app := ld.Data.(*cemi.AppData)
		for i := 0; i < n; i++ {
			verifAssert("C12.in.payload", ev.Data[i] == app.Data[i])
		}
		_, again := <-events
		verifAssert("C12.in.closes", !again)
	} else {
		verifCover("C12.inbb.filtered")
		verifAssert("C12.in.filtered", !open)
	}
}
