package main

import (
	"bytes"
	"encoding/json"
	"fmt"
	"os"
	osexec "os/exec"
	"path/filepath"
	"sync"
)

type nativeCase struct {
	ID      int      `json:"id"`
	Pkg     string   `json:"-"`
	Harness string   `json:"harness"`
	Args    []int64  `json:"args"`
	Nondet  []uint64 `json:"nondet"`
	Twin    bool     `json:"twin"`
}

type nativeResult struct {
	ID       int      `json:"id"`
	Outcome  string   `json:"outcome"`
	Detail   string   `json:"detail"`
	Obs      []string `json:"obs"`
	Covers   []string `json:"covers"`
	TwinDiff bool     `json:"twin_diff"`
}

// runNative executes the cases against the real build with `go test -overlay`.
func runNative(cases []nativeCase) ([]nativeResult, error) {
	work := filepath.Join(verifDir, ".work", fmt.Sprint(os.Getpid()))
	if err := os.MkdirAll(work, 0o755); err != nil {
		return nil, err
	}
	defer os.RemoveAll(work)
	ov, err := buildOverlay(work, true)
	if err != nil {
		return nil, err
	}
	ovj, _ := json.Marshal(map[string]interface{}{"Replace": ov.Files})
	ovPath := filepath.Join(work, "overlay.json")
	if err := os.WriteFile(ovPath, ovj, 0o644); err != nil {
		return nil, err
	}
	byPkg := map[string][]nativeCase{}
	for _, c := range cases {
		if c.Nondet == nil {
			c.Nondet = []uint64{}
		}
		if c.Args == nil {
			c.Args = []int64{}
		}
		byPkg[c.Pkg] = append(byPkg[c.Pkg], c)
	}
	var mu sync.Mutex
	var all []nativeResult
	var firstErr error
	var wg sync.WaitGroup
	for pkg, cs := range byPkg {
		wg.Add(1)
		go func(pkg string, cs []nativeCase) {
			defer wg.Done()
			pending := cs
			round := 0
			for len(pending) > 0 && round < 40 {
				round++
				inP := filepath.Join(work, fmt.Sprintf("cases_%s_%d.json", pkg, round))
				outP := filepath.Join(work, fmt.Sprintf("out_%s_%d.json", pkg, round))
				b, _ := json.Marshal(pending)
				os.WriteFile(inP, b, 0o644)
				cmd := osexec.Command("go", "test", "-tags", "verif", "-vet=off", "-count=1", "-timeout", "20m",
					"-overlay", ovPath, "-run", "^TestVerifReplay$", "./"+harnessPkgs[pkg])
				cmd.Dir = repoDir
				cmd.Env = append(goEnv(), "VERIF_CASES="+inP, "VERIF_OUT="+outP)
				var buf bytes.Buffer
				cmd.Stdout = &buf
				cmd.Stderr = &buf
				runErr := cmd.Run()
				rb, err := os.ReadFile(outP)
				if err != nil {
					mu.Lock()
					if firstErr == nil {
						firstErr = fmt.Errorf("native run of %s produced no results: %v\n%s", pkg, runErr, tail(buf.String(), 2000))
					}
					mu.Unlock()
					return
				}
				var rs []nativeResult
				if err := json.Unmarshal(rb, &rs); err != nil {
					mu.Lock()
					firstErr = err
					mu.Unlock()
					return
				}
				var next []nativeCase
				mu.Lock()
				for i, r := range rs {
					if r.Outcome == "notrun" && r.Detail == "" {
						next = append(next, pending[i])
						continue
					}
					all = append(all, r)
				}
				mu.Unlock()
				pending = next
			}
		}(pkg, cs)
	}
	wg.Wait()
	return all, firstErr
}

func tail(s string, n int) string {
	if len(s) > n {
		return s[len(s)-n:]
	}
	return s
}
