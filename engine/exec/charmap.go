package exec

import (
	"sort"
	"strings"

	"golang.org/x/text/encoding/charmap"

	"kv/term"
)

// Character maps of golang.org/x/text/encoding/charmap: every single-byte map is modelled by its own
// table, read from the host's copy of the package (the module version the repository requires):
// decoding is a function byte -> rune, encoding its inverse on the repertoire and an error elsewhere
// (x/text replaces nothing when encoding through Encoder.Bytes). ISO 8859-1 gives the identity.

var hostCharmaps = map[string]*charmap.Charmap{
	"CodePage037": charmap.CodePage037, "CodePage437": charmap.CodePage437, "CodePage850": charmap.CodePage850,
	"CodePage852": charmap.CodePage852, "CodePage855": charmap.CodePage855, "CodePage858": charmap.CodePage858,
	"CodePage860": charmap.CodePage860, "CodePage862": charmap.CodePage862, "CodePage863": charmap.CodePage863,
	"CodePage865": charmap.CodePage865, "CodePage866": charmap.CodePage866, "CodePage1047": charmap.CodePage1047,
	"CodePage1140": charmap.CodePage1140, "ISO8859_1": charmap.ISO8859_1, "ISO8859_2": charmap.ISO8859_2,
	"ISO8859_3": charmap.ISO8859_3, "ISO8859_4": charmap.ISO8859_4, "ISO8859_5": charmap.ISO8859_5,
	"ISO8859_6": charmap.ISO8859_6, "ISO8859_7": charmap.ISO8859_7, "ISO8859_8": charmap.ISO8859_8,
	"ISO8859_9": charmap.ISO8859_9, "ISO8859_10": charmap.ISO8859_10, "ISO8859_13": charmap.ISO8859_13,
	"ISO8859_14": charmap.ISO8859_14, "ISO8859_15": charmap.ISO8859_15, "ISO8859_16": charmap.ISO8859_16,
	"KOI8R": charmap.KOI8R, "KOI8U": charmap.KOI8U, "Macintosh": charmap.Macintosh,
	"MacintoshCyrillic": charmap.MacintoshCyrillic, "Windows874": charmap.Windows874,
	"Windows1250": charmap.Windows1250, "Windows1251": charmap.Windows1251, "Windows1252": charmap.Windows1252,
	"Windows1253": charmap.Windows1253, "Windows1254": charmap.Windows1254, "Windows1255": charmap.Windows1255,
	"Windows1256": charmap.Windows1256, "Windows1257": charmap.Windows1257, "Windows1258": charmap.Windows1258,
	"XUserDefined": charmap.XUserDefined,
}

type codec struct {
	name   string
	dec    [256]rune
	decOdd []int  // bytes that do not decode to the rune of the same number
	notI   []rune // runes below 0x100 that are not encoded as the byte of the same number
	extra  []rune // other encodable runes, sorted
	enc    map[rune]byte
}

var codecs = map[string]*codec{}

// all tables are built once, before any worker goroutine runs
func init() {
	for name := range hostCharmaps {
		codecs[name] = buildCodec(name)
	}
}

func codecFor(name string) *codec { return codecs[name] }

func buildCodec(name string) *codec {
	m := hostCharmaps[name]
	if m == nil {
		return nil
	}
	c := &codec{name: name, enc: map[rune]byte{}}
	for b := 0; b < 256; b++ {
		r := m.DecodeByte(byte(b))
		c.dec[b] = r
		if r != rune(b) {
			c.decOdd = append(c.decOdd, b)
		}
		if eb, ok := m.EncodeRune(r); ok && r != 0xFFFD {
			if _, seen := c.enc[r]; !seen {
				c.enc[r] = eb
			}
		}
	}
	for r := rune(0); r < 0x100; r++ {
		if eb, ok := c.enc[r]; !ok || eb != byte(r) {
			c.notI = append(c.notI, r)
		}
	}
	for r, eb := range c.enc {
		if r >= 0x100 || eb != byte(r) {
			c.extra = append(c.extra, r)
		}
	}
	sort.Slice(c.extra, func(i, j int) bool { return c.extra[i] < c.extra[j] })
	return c
}

const charmapObjPrefix = "x/text charmap "

// charmapGlobal: the value of the package-level variable charmap.<name> is a pointer to an opaque
// object that only carries the name; its methods NewEncoder/NewDecoder are stubs.
func (e *Exec) charmapGlobal(name string) (Value, bool) {
	if codecFor(name) == nil {
		return nil, false
	}
	if e.charmapObjs == nil {
		e.charmapObjs = map[string]*Object{}
	}
	o := e.charmapObjs[name]
	if o == nil {
		o = e.newObj(nil, e.C.BVConst(8, 0))
		o.Name = charmapObjPrefix + name
		e.charmapObjs[name] = o
	}
	return Ptr{Obj: o}, true
}

// codecOf resolves the receiver of NewEncoder/NewDecoder/Bytes to the character map it stands for.
func (e *Exec) codecOf(recv Value) *codec {
	if p, ok := recv.(Ptr); ok && p.Obj != nil && strings.HasPrefix(p.Obj.Name, charmapObjPrefix) {
		if c := codecFor(strings.TrimPrefix(p.Obj.Name, charmapObjPrefix)); c != nil {
			return c
		}
	}
	e.unsupported("character map %v is not one of the single-byte maps of x/text/encoding/charmap", recv)
	return nil
}

func (e *Exec) newCodecObj(recv Value) Value {
	c := e.codecOf(recv)
	o := e.newObj(nil, e.C.BVConst(8, 1))
	o.Name = charmapObjPrefix + c.name
	return Ptr{Obj: o}
}

// decodeRune: the rune a (symbolic) byte stands for.
func (c *codec) decodeRune(e *Exec, b *term.T) *term.T {
	r := e.C.ZExt(b, 32)
	for _, o := range c.decOdd {
		r = e.C.Ite(e.C.Eq(b, e.C.BVConst(8, uint64(o))), e.C.BVConst(32, uint64(c.dec[o])), r)
	}
	return r
}

// encodeRune: whether a (symbolic) rune is in the repertoire, and the byte it is encoded as.
func (c *codec) encodeRune(e *Exec, r *term.T) (ok, b *term.T) {
	ok = e.C.Cmp(term.OpULt, r, e.C.BVConst(32, 0x100))
	for _, n := range c.notI {
		ok = e.C.BAnd(ok, e.C.Not(e.C.Eq(r, e.C.BVConst(32, uint64(n)))))
	}
	b = e.C.Extract(r, 7, 0)
	for _, x := range c.extra {
		is := e.C.Eq(r, e.C.BVConst(32, uint64(x)))
		ok = e.C.BOr(ok, is)
		b = e.C.Ite(is, e.C.BVConst(8, uint64(c.enc[x])), b)
	}
	return ok, b
}
