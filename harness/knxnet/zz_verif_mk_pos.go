//go:build verif

package knxnet

import "net"

func init() {
	verifNewTunnelSocket = func(conn net.Conn, inbound <-chan Service) *TunnelSocket {
		return &TunnelSocket{conn, inbound}
	}
	verifNewRouterSocket = func(conn *net.UDPConn, addr *net.UDPAddr, inbound <-chan Service) *RouterSocket {
		return &RouterSocket{conn, addr, inbound}
	}
}
