//go:build verif

package knx

import (
	"time"

	"github.com/vapourismo/knx-go/knx/cemi"
	"github.com/vapourismo/knx-go/knx/knxnet"
)

// Harnesses that run the unexported receive loop process() directly. They live in a file of their
// own: the loader drops a harness file that no longer compiles against the tree (e.g. after a change
// of this function's signature) and only the instances defined in it become inconclusive.

func init() {
	verifHarnesses["HarnessC04Stream"] = HarnessC04Stream
	verifHarnesses["HarnessC09Dispatch"] = HarnessC09Dispatch
}

// HarnessC04Stream: a = {K, tcp, reader mode 0 always / 1 late}: the real process() goroutine of a
// fresh connection epoch fed with K tunnelling requests of symbolic channel and sequence
// number; deliveries and acknowledgements are compared with the protocol rule, the expected
// number starting at 0.
func HarnessC04Stream(a []int) {
	K, tcp, late := a[0], a[1] == 1, a[2] == 1
	sock := newVSock()
	conn := vTunnel(sock, tcp)
	c := nondetU8()
	conn.channel = c
	got := []cemi.Message{}
	reader := func() {
		verifDaemon()
		for m := range conn.inbound {
			got = append(got, m)
		}
	}
	if !late {
		go reader()
	}
	finished := make(chan error)
	go func() { finished <- conn.process() }()
	var e uint8
	wantDeliver := []cemi.Message{}
	wantAcks := 0
	for i := 0; i < K; i++ {
		req := &knxnet.TunnelReq{Channel: nondetU8(), SeqNumber: nondetU8(), Payload: c04Msgs[i]}
		sock.in <- req
		verifQuiesce()
		nAck := len(sock.log)
		switch {
		case req.Channel != c:
			verifAssert("C04.stream.foreign_ignored", nAck == wantAcks)
		case tcp:
			wantDeliver = append(wantDeliver, req.Payload)
			verifAssert("C04.stream.tcp_no_ack", nAck == 0)
		case req.SeqNumber == e:
			verifCover("C04.stream.accepted")
			wantDeliver = append(wantDeliver, req.Payload)
			e++
			wantAcks++
			verifAssert("C04.stream.ack", nAck == wantAcks)
			res, ok := sock.log[nAck-1].(*knxnet.TunnelRes)
			verifAssert("C04.stream.ack_fields", ok && res.Channel == c && res.SeqNumber == req.SeqNumber && res.Status == 0)
		case req.SeqNumber == e-1:
			verifCover("C04.stream.repeated")
			wantAcks++
			verifAssert("C04.stream.reack", nAck == wantAcks)
			res, ok := sock.log[nAck-1].(*knxnet.TunnelRes)
			verifAssert("C04.stream.ack_fields", ok && res.Channel == c && res.SeqNumber == req.SeqNumber && res.Status == 0)
		default:
			verifAssert("C04.stream.out_of_sequence_ignored", nAck == wantAcks)
		}
	}
	if late {
		close(conn.done) // keep the heartbeat out of the picture while time passes
		verifSleep(int64(20 * conn.config.ResponseTimeout))
		go reader()
	}
	verifQuiesce()
	verifAssert("C04.stream.delivered_count", len(got) == len(wantDeliver))
	// exactly-once: the multiset of delivered telegrams equals the accepted ones (order is C17)
	for _, w := range wantDeliver {
		n := 0
		for _, g := range got {
			if g == w {
				n++
			}
		}
		verifAssert("C04.stream.exactly_once", n == 1)
	}
	if !late {
		close(conn.done)
	}
	err := <-finished
	verifAssert("C04.stream.process_ends", err == nil)
	verifCover("C04.stream.end")
}

// HarnessC09Dispatch: a = {message kind}: the real process() goroutine receives one frame with a
// symbolic channel: 0 disconnect request, 1 disconnect response, 2 connection-state response,
// 3 tunnelling acknowledgement, 4 connect response (stray), 5 routing indication (stray).
func HarnessC09Dispatch(a []int) {
	sock := newVSock()
	conn := vTunnel(sock, false)
	c := nondetU8()
	conn.channel = c
	ch := nondetU8()
	finished := make(chan error, 1)
	go func() { finished <- conn.process() }()
	var msg knxnet.Service
	switch a[0] {
	case 0:
		msg = &knxnet.DiscReq{Channel: ch, Status: nondetU8()}
	case 1:
		msg = &knxnet.DiscRes{Channel: ch, Status: nondetU8()}
	case 2:
		msg = &knxnet.ConnStateRes{Channel: ch, Status: knxnet.ErrCode(nondetU8())}
	case 3:
		msg = &knxnet.TunnelRes{Channel: ch, SeqNumber: nondetU8(), Status: knxnet.ErrCode(nondetU8())}
	case 4:
		msg = &knxnet.ConnRes{Channel: ch, Status: knxnet.ErrCode(nondetU8())}
	default:
		msg = &knxnet.RoutingInd{Payload: c04Msgs[0]}
	}
	sock.in <- msg
	verifSleep(int64(10 * time.Second)) // lets relay goroutines give up
	verifQuiesce()
	ended := false
	var err error
	select {
	case err = <-finished:
		ended = true
	default:
	}
	own := ch == c
	switch {
	case a[0] == 0 && own:
		verifCover("C09.dispatch.disconnect_request")
		verifAssert("C09.dispatch.discreq_ends_epoch", ended && err == errDisconnected)
		verifAssert("C09.dispatch.discreq_answered", len(sock.log) == 1)
		r, ok := sock.log[0].(*knxnet.DiscRes)
		verifAssert("C09.dispatch.discres_fields", ok && r.Channel == c && r.Status == 0)
	case a[0] == 1 && own:
		verifCover("C09.dispatch.disconnect_response")
		verifAssert("C09.dispatch.discres_terminates", ended && err == nil && len(sock.log) == 0)
	default:
		verifCover("C09.dispatch.ignored")
		verifAssert("C09.dispatch.foreign_ignored", !ended && len(sock.log) == 0)
	}
	close(conn.done)
	verifObserve("ended", ended)
}
