#!/bin/sh
# convenience: run every claimed thorough check, one after the other (used through `vp run`)
cd "$(dirname "$0")"
./setup.sh
for id in $(python3 -c "import json;print(' '.join(c['property_id'] for c in json.load(open('MANIFEST.json'))['checks']))"); do
  start=$(date +%s); ./check $id thorough $KV_EXTRA > thorough_$id.log 2>&1; rc=$?; end=$(date +%s)
  echo "$id exit=$rc $((end-start))s $(tail -1 thorough_$id.log | cut -c1-200)"
  grep -m5 "INCONCLUSIVE\|VIOLATION" thorough_$id.log | cut -c1-300
done
