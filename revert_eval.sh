#!/bin/bash
# revert_eval.sh: for every fix: commit of /repo, apply its reverse to the working tree, run the
# check(s) of the property it was recorded for, expect exit 1, and restore the tree.
cd /verif
python3 - <<'PY' > /tmp/fixlist.txt
import json
f=json.load(open('/verif/known_findings.json'))
seen={}
for x in f['findings']:
    if x['status']=='fixed':
        seen.setdefault(x['commit'],[]).append(x['property'])
for c,ps in seen.items():
    print(c,' '.join(sorted(set(ps))))
PY
while read sha props; do
  if ! git -C /repo show $sha | git -C /repo apply -R --check 2>/dev/null; then echo "$sha ($props): reverse does not apply cleanly (later fixes touch the same lines)"; continue; fi
  git -C /repo show $sha | git -C /repo apply -R
  if ! (cd /repo && GOFLAGS=-mod=mod GOPROXY=off go build ./... 2>/dev/null); then echo "$sha ($props): reverted tree does not build"; git -C /repo checkout -- .; continue; fi
  for p in $props; do
    KV_OUT=/tmp/kvo_rev timeout 1800 ./check $p quick > /tmp/rev_$sha.$p.log 2>&1; rc=$?
    echo "$sha $(git -C /repo log --format=%s -1 $sha | cut -c1-60) | check $p exit=$rc violations=$(grep -c '^VIOLATION' /tmp/rev_$sha.$p.log)"
  done
  git -C /repo checkout -- .
done < /tmp/fixlist.txt
rm -rf /tmp/kvo_rev
git -C /repo status --short | wc -l
