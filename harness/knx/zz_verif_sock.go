//go:build verif

package knx

import (
	"errors"
	"net"

	"github.com/vapourismo/knx-go/knx/knxnet"
)

// vSock is the in-memory knxnet.Socket of the closed-mode harnesses (DESIGN 3.4): it
// replaces only the kernel. Every transmitted frame is logged with its virtual time stamp.
type vSock struct {
	log      []knxnet.ServicePackable
	stamps   []int64
	in       chan knxnet.Service
	failSend bool
	failFrom int // fail every Send from this log position on (-1: never)
	closed   int
	network  string
	onSend   func(knxnet.ServicePackable)
}

var errVSock = errors.New("vsock: send failed")

func newVSock() *vSock {
	return &vSock{in: make(chan knxnet.Service), failFrom: -1, network: "udp"}
}

func (s *vSock) Send(p knxnet.ServicePackable) error {
	if s.failSend || (s.failFrom >= 0 && len(s.log) >= s.failFrom) {
		return errVSock
	}
	s.log = append(s.log, p)
	s.stamps = append(s.stamps, verifNow())
	if s.onSend != nil {
		s.onSend(p)
	}
	return nil
}

func (s *vSock) Inbound() <-chan knxnet.Service { return s.in }

func (s *vSock) Close() error {
	s.closed++
	return nil
}

type vAddr struct{ network string }

func (a vAddr) Network() string { return a.network }
func (a vAddr) String() string  { return "192.0.2.1:3671" }

func (s *vSock) LocalAddr() net.Addr { return vAddr{s.network} }
