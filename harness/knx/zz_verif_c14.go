//go:build verif

package knx

import (
	"time"

	"github.com/vapourismo/knx-go/knx/cemi"
	"github.com/vapourismo/knx-go/knx/knxnet"
)

func init() {
	verifHarnesses["HarnessC14Step"] = HarnessC14Step
	verifHarnesses["HarnessC14Run"] = HarnessC14Run
}

var c14Msgs = [8]cemi.Message{&cemi.LDataInd{}, &cemi.LDataInd{}, &cemi.LDataInd{}, &cemi.LDataInd{}, &cemi.LDataInd{}, &cemi.LDataInd{}, &cemi.LDataInd{}, &cemi.LDataInd{}}

func c14Equal(got, want []int) bool {
	if len(got) != len(want) {
		return false
	}
	for i := range got {
		if got[i] != want[i] {
			return false
		}
	}
	return true
}

// c14Probe asks the client to repeat everything it retains (lost count 65535) and returns what it
// transmitted in answer: the retained history, oldest first. Repetitions are retained again, so the
// history is the same afterwards.
func c14Probe(in chan knxnet.Service) []int {
	base := verifNetWrites()
	in <- &knxnet.RoutingLost{Count: 65535}
	verifQuiesce()
	ids, _ := routerSent()
	return ids[base:]
}

// HarnessC14Step: a = {R retain count, r successful sends before, mode: 0 Send succeeds, 1 Send fails,
// 2 lost indication (count symbolic), 3 lost indication with the transmission failing from a
// nondeterministic repetition on}. The client is built by NewRouter; its history is produced by r
// real Sends and observed through what a lost indication makes it repeat.
func HarnessC14Step(a []int) {
	R, r, mode := a[0], a[1], a[2]
	router, in := newRouterEnv(uint(R), 0)
	var hist []int
	for i := 0; i < r; i++ {
		verifAssert("C14.step.setup_send", router.Send(rmsg(i)) == nil)
		verifQuiesce()
		hist = append(hist, i)
		if len(hist) > R {
			hist = hist[1:]
		}
	}
	switch mode {
	case 0, 1:
		if mode == 1 {
			verifNetFailFrom(0)
		}
		base := verifNetWrites()
		err := router.Send(rmsg(7))
		verifQuiesce()
		verifNetFailFrom(-1)
		if mode == 1 {
			verifCover("C14.step.sendfail")
			verifAssert("C14.step.failed_reports_error", err != nil && verifNetWrites() == base)
			verifAssert("C14.step.failed_not_retained", c14Equal(c14Probe(in), hist))
		} else {
			verifCover("C14.step.sent")
			ids, _ := routerSent()
			verifAssert("C14.step.sent_one", err == nil && len(ids) == base+1 && ids[base] == 7)
			want := append(append([]int{}, hist...), 7)
			if len(want) > R {
				want = want[len(want)-R:]
			}
			got := c14Probe(in)
			verifAssert("C14.step.bounded_history", len(got) <= R)
			verifAssert("C14.step.history", c14Equal(got, want))
		}
		verifAssert("C14.step.still_usable", router.Send(rmsg(6)) == nil)
	default:
		count := nondetU16()
		k := int(count)
		if k > len(hist) {
			k = len(hist)
		}
		if mode == 3 {
			verifNetFailFrom(nondetChoice(k + 1))
		}
		base := verifNetWrites()
		in <- &knxnet.RoutingLost{Count: count}
		verifQuiesce()
		verifNetFailFrom(-1)
		ids, _ := routerSent()
		resent := ids[base:]
		verifObserve("k", k)
		if mode == 2 {
			verifCover("C14.lost.resent")
			verifAssert("C14.lost.exactly_last_k_in_order", c14Equal(resent, hist[len(hist)-k:]))
			verifAssert("C14.lost.history_kept", c14Equal(c14Probe(in), hist))
		} else {
			verifCover("C14.lost.partial")
			// what went out is a prefix of the lost ones, in the original order
			verifAssert("C14.lost.original_order", len(resent) <= k && c14Equal(resent, hist[len(hist)-k:len(hist)-k+len(resent)]))
			verifAssert("C14.lost.bounded_history", len(c14Probe(in)) <= R)
		}
		verifAssert("C14.lost.still_usable", router.Send(rmsg(6)) == nil)
	}
	router.Close()
	close(in)
	verifQuiesce()
	_, open := <-router.Inbound()
	verifAssert("C14.step.inbound_closed_after_close", !open)
}

func init() {
	verifHarnesses["HarnessC14Big"] = HarnessC14Big
	verifHarnesses["HarnessC14Group"] = HarnessC14Group
}

// HarnessC14Group: a = {n1, n2}: two group events (payload bytes symbolic) sent through a client built
// by NewGroupRouter, then both reported lost: the two repetitions are byte for byte the two datagrams
// sent before (the history must not alias buffers the group layer reuses).
func HarnessC14Group(a []int) {
	ev1, ev2 := c12Event(a[0]), c12Event(a[1])
	gr := newGroupRouterEnv()
	in := knxnet.VerifInbound
	verifAssert("C14.group.sent", gr.Send(ev1) == nil)
	verifQuiesce()
	verifAssert("C14.group.sent", gr.Send(ev2) == nil && verifNetWrites() == 2)
	verifQuiesce()
	in <- &knxnet.RoutingLost{Count: 2}
	verifSleep(int64(time.Second))
	verifQuiesce()
	verifAssert("C14.group.resent_count", verifNetWrites() == 4)
	for k := 0; k < 2; k++ {
		w, r := verifNetWrite(k), verifNetWrite(2+k)
		verifAssert("C14.group.resent_len", len(w) == len(r))
		for i := range w {
			verifAssert("C14.group.resent_identical", w[i] == r[i])
		}
	}
	verifCover("C14.group.end")
}

// HarnessC14Big: a = {retain count R, payload bytes n}: R+2 telegrams with n-byte payloads (each filled
// with its own number) are sent through a client built by NewRouter, then all R retained ones are
// reported lost: the repetitions are those R telegrams, in order, byte for byte (history storage that
// only shows with a full default-sized history and realistic payload sizes).
//
// With a third argument N the history is N telegrams long (300: ten times the default history) and the
// lost indication claims 65535 lost telegrams: exactly the last R are repeated - the history never
// holds more than R, however long the client has been sending.
func HarnessC14Big(a []int) {
	R, n := a[0], a[1]
	N, claim := R+2, R
	if len(a) > 2 {
		N, claim = a[2], 65535
	}
	router, in := newRouterEnv(uint(R), 0)
	mk := func(i int) cemi.Message {
		data := make([]byte, n)
		for j := range data {
			data[j] = byte(i + 1)
		}
		data[0] &= 0x3F // the wire keeps six bits of the first payload byte
		return &cemi.LDataInd{LData: cemi.LData{Control1: cemi.Control1NoRepeat, Control2: cemi.Control2GroupAddr,
			Destination: uint16(100 + i), Data: &cemi.AppData{Command: cemi.GroupValueWrite, Data: data}}}
	}
	for i := 0; i < N; i++ {
		verifAssert("C14.big.sent", router.Send(mk(i)) == nil)
	}
	base := verifNetWrites()
	verifAssert("C14.big.one_datagram_per_send", base == N)
	in <- &knxnet.RoutingLost{Count: uint16(claim)}
	verifSleep(int64(time.Second))
	verifQuiesce()
	verifAssert("C14.big.resent_count", verifNetWrites() == base+R)
	for k := 0; k < R; k++ {
		var srv knxnet.Service
		_, err := knxnet.Unpack(verifNetWrite(base+k), &srv)
		ind, ok := srv.(*knxnet.RoutingInd)
		verifAssert("C14.big.decodes", err == nil && ok)
		ld, ok := ind.Payload.(*cemi.LDataInd)
		verifAssert("C14.big.kind", ok)
		i := N - R + k
		verifAssert("C14.big.order", int(ld.Destination) == 100+i)
		app, ok := ld.Data.(*cemi.AppData)
		verifAssert("C14.big.payload_len", ok && len(app.Data) == n)
		for j := 1; j < n; j++ {
			verifAssert("C14.big.payload_unchanged", app.Data[j] == byte(i+1))
		}
	}
	verifCover("C14.big.end")
}

// HarnessC14Run: a = {scenario}: the real server goroutine (started by NewRouter) with senders,
// indications, a slow or absent reader and Close. No deadlock, every received routing indication
// reaches Inbound exactly once (while the reader keeps reading), Inbound is closed after Close.
func HarnessC14Run(a []int) {
	scenario := a[0]
	router, in := newRouterEnv(2, 5*time.Millisecond)
	var got []int
	readerDone := false
	reader := func() {
		for m := range router.Inbound() {
			got = append(got, rid(m))
		}
		readerDone = true
	}
	if scenario != 2 && scenario != 3 {
		go reader()
	}
	sent := 0
	sender := func(ms ...int) {
		for _, m := range ms {
			router.Send(rmsg(m))
			sent++
		}
	}
	shutdown := func() { // Close, then the socket's receiver closes its channel
		router.Close()
		close(in)
	}
	x1, x2 := rmsg(40), rmsg(41)
	switch scenario {
	case 0: // traffic, a lost indication, a busy indication, then Close
		go sender(0, 1)
		in <- &knxnet.RoutingInd{Payload: x1}
		in <- &knxnet.RoutingLost{Count: nondetU16()}
		in <- &knxnet.RoutingInd{Payload: x2}
		// (an announced wait time of zero is legal: nothing to wait for, sending goes on)
		in <- &knxnet.RoutingBusy{WaitTime: time.Duration(10*nondetChoice(2)) * time.Millisecond, Control: uint16(nondetChoice(2))}
		go sender(2)
		verifSleep(int64(time.Second))
		shutdown()
		verifQuiesce()
		verifAssert("C14.run.sends_return", sent == 3)
	case 1: // two busy indications back to back while senders are active
		go sender(0)
		go sender(1)
		in <- &knxnet.RoutingBusy{WaitTime: 30 * time.Millisecond}
		in <- &knxnet.RoutingInd{Payload: x1}
		in <- &knxnet.RoutingBusy{WaitTime: 500 * time.Millisecond, Control: 1}
		in <- &knxnet.RoutingInd{Payload: x2}
		verifSleep(int64(time.Second))
		shutdown()
		verifQuiesce()
		verifAssert("C14.run.sends_return", sent == 2)
	case 4: // a lost indication next to busy indications (before, after, inside the wait time): the
		// repetitions still go out, exactly once, in the original order
		sender(0, 1)
		lostInd := &knxnet.RoutingLost{Count: 2 + uint16(nondetChoice(2))}
		busy := func(ms int) *knxnet.RoutingBusy {
			return &knxnet.RoutingBusy{WaitTime: time.Duration(ms) * time.Millisecond, Control: uint16(nondetChoice(2))}
		}
		switch nondetChoice(3) {
		case 0:
			in <- busy(30)
			in <- lostInd
		case 1:
			in <- lostInd
			in <- busy(30)
		default:
			in <- busy(10)
			in <- busy(40)
			in <- lostInd
		}
		in <- &knxnet.RoutingInd{Payload: x1}
		in <- &knxnet.RoutingInd{Payload: x2}
		verifSleep(int64(time.Second))
		verifQuiesce()
		ids, _ := routerSent()
		verifAssert("C14.run.lost_next_to_busy", c14Equal(ids, []int{0, 1, 0, 1}))
		shutdown()
		verifQuiesce()
	case 5: // a lost indication that resolves to nothing (empty history, or a count of zero), traffic,
		// then a lost indication that counts: the second one is served like the first on a fresh client
		in <- &knxnet.RoutingLost{Count: uint16(nondetChoice(3))}
		verifSleep(int64(time.Second))
		sender(0, 1)
		in <- &knxnet.RoutingLost{Count: 0}
		verifSleep(int64(time.Second))
		in <- &knxnet.RoutingLost{Count: 2}
		in <- &knxnet.RoutingInd{Payload: x1}
		in <- &knxnet.RoutingInd{Payload: x2}
		verifSleep(int64(time.Second))
		verifQuiesce()
		ids, _ := routerSent()
		verifAssert("C14.run.lost_after_empty_lost", c14Equal(ids, []int{0, 1, 0, 1}))
		shutdown()
		verifQuiesce()
	case 3: // Close while telegrams are parked; the reader arrives only afterwards: its range loop must end
		in <- &knxnet.RoutingInd{Payload: x1}
		in <- &knxnet.RoutingInd{Payload: x2}
		verifQuiesce()
		shutdown()
		verifQuiesce()
		go reader()
		verifQuiesce()
		verifAssert("C14.run.inbound_closed", readerDone)
		for i, m := range got {
			verifAssert("C14.run.parked_in_order", m == 40+i)
		}
		verifAssert("C14.run.socket_closed_once", verifNetClosed() == 1)
		verifCover("C14.run.end")
		return
	case 2: // reader absent during the traffic, arrives late, then Close
		in <- &knxnet.RoutingInd{Payload: x1}
		in <- &knxnet.RoutingInd{Payload: x2}
		go reader()
		verifQuiesce()
		shutdown()
		verifQuiesce()
	}
	verifAssert("C14.run.inbound_closed", readerDone)
	verifAssert("C14.run.socket_closed_once", verifNetClosed() == 1)
	n1, n2 := 0, 0
	for _, m := range got {
		if m == 40 {
			n1++
		}
		if m == 41 {
			n2++
		}
	}
	verifAssert("C14.run.exactly_once", n1 == 1 && n2 == 1 && len(got) == 2)
	verifCover("C14.run.end")
}
