#!/bin/sh
# Build the kv engine offline from /verif/engine.
set -e
cd "$(dirname "$0")/engine"
export GOFLAGS=-mod=mod GOPROXY=off GOSUMDB=off GOTOOLCHAIN=local CGO_ENABLED=0
mkdir -p ../bin
go build -o ../bin/kv ./cmd/kv
