package main

import (
	"encoding/json"
	"flag"
	"fmt"
	"os"
	"runtime/debug"
	"runtime/pprof"
	"sort"
	"strconv"
	"strings"

	"kv/exec"
	"kv/smt"
)

func main() {
	if len(os.Args) < 2 {
		fmt.Fprintln(os.Stderr, "usage: kv check <ID> <quick|thorough> | kv run <pkg> <Harness> [args...] | kv replay <file> | kv list")
		os.Exit(2)
	}
	if v := os.Getenv("VERIF_DIR"); v != "" {
		verifDir = v
	}
	if v := os.Getenv("KV_REPO"); v != "" {
		repoDir = v
	}
	// the executor allocates many short-lived values per path: collect less often (bounded by a soft limit)
	if os.Getenv("GOGC") == "" {
		debug.SetGCPercent(400)
		debug.SetMemoryLimit(24 << 30)
	}
	if pf := os.Getenv("KV_CPUPROFILE"); pf != "" {
		f, err := os.Create(pf)
		if err == nil {
			pprof.StartCPUProfile(f)
			defer pprof.StopCPUProfile()
		}
	}
	fs := flag.NewFlagSet("kv", flag.ExitOnError)
	workers := fs.Int("j", defaultWorkers(), "workers")
	solver := fs.String("solver", "z3", "z3 | z3-new | cvc5")
	timeout := fs.Int("timeout", 300000, "per-query timeout ms")
	trace := fs.Bool("trace", false, "record instruction trace")
	unwind := fs.Int("unwind", 300, "loop bound (run)")
	ctx := fs.Int("ctx", 0, "context bound (run)")
	race := fs.Bool("race", false, "HB race check (run)")
	maxPaths := fs.Int("maxpaths", 0, "path cap (run)")
	randChoice := fs.Bool("randchoice", false, "rand.Float64 as a 3-way choice (run)")
	knownRaces := fs.String("knownraces", "", "comma separated substrings of tolerated races (run)")
	switch os.Args[1] {
	case "check":
		fs.Parse(os.Args[4:])
		opt := options{workers: *workers, solver: *solver, timeoutMs: *timeout, samplesPer: 2, budgetS: 1800}
		if os.Args[3] == "thorough" {
			opt.budgetS = 3 * 3600
		}
		if v, err := strconv.Atoi(os.Getenv("KV_BUDGET")); err == nil {
			opt.budgetS = v
		}
		fs.Visit(func(f *flag.Flag) {
			if f.Name == "solver" {
				opt.solverSet = true
			}
		})
		if os.Args[3] == "thorough" {
			opt.samplesPer = 6
			if *timeout == 300000 {
				opt.timeoutMs = 900000
			}
		}
		os.Exit(runCheck(os.Args[2], os.Args[3], opt))
	case "describe":
		l, err := load()
		if err != nil {
			fmt.Fprintln(os.Stderr, err)
			os.Exit(2)
		}
		var ids []string
		for id := range specs {
			ids = append(ids, id)
		}
		sort.Strings(ids)
		fmt.Println("| id | solver | quick instances | thorough instances | harnesses | bounds (decided by the solver within them) | outside the claim |")
		fmt.Println("|---|---|---|---|---|---|---|")
		for _, id := range ids {
			sp := specs[id]
			q := sp.Quick(l)
			nt := len(q)
			if sp.Thorough != nil {
				nt = len(sp.Thorough(l))
			}
			hs := map[string]bool{}
			for _, in := range q {
				hs[in.Fn] = true
			}
			var hl []string
			for h := range hs {
				hl = append(hl, strings.TrimPrefix(h, "Harness"))
			}
			sort.Strings(hl)
			sv := sp.Solver
			if sv == "" {
				sv = "z3"
			}
			fmt.Printf("| %s | %s | %d | %d | %s | %s | %s |\n", id, sv, len(q), nt, strings.Join(hl, ", "), sp.Bounds, sp.Outside)
		}
	case "list":
		for id := range specs {
			fmt.Println(id)
		}
	case "run":
		var args []int64
		rest := os.Args[4:]
		for len(rest) > 0 {
			v, err := strconv.ParseInt(rest[0], 0, 64)
			if err != nil {
				if strings.HasPrefix(rest[0], "-") {
					break
				}
				fmt.Fprintln(os.Stderr, err)
				os.Exit(2)
			}
			args = append(args, v)
			rest = rest[1:]
		}
		fs.Parse(rest)
		l, err := load()
		if err != nil {
			fmt.Fprintln(os.Stderr, err)
			os.Exit(2)
		}
		fmt.Printf("loaded in %.1fs\n", l.LoadS)
		in := Inst{Pkg: os.Args[2], Fn: os.Args[3], Args: args, Unwind: *unwind, Ctx: *ctx, Race: *race, MaxPaths: *maxPaths, RandChoice: *randChoice}
		if *knownRaces != "" {
			in.KnownRaces = strings.Split(*knownRaces, ",")
		}
		opt := options{workers: *workers, solver: *solver, timeoutMs: *timeout, samplesPer: 3, trace: *trace}
		res, st, err := explore(l, []Inst{in}, opt)
		if err != nil {
			fmt.Fprintln(os.Stderr, err)
			os.Exit(2)
		}
		r := res[0]
		fmt.Printf("races=%v\n", r.Races)
		fmt.Printf("paths=%d outcomes=%v covers=%v queries=%d solver=%.2fs instrs=%d cpu=%.1fs\n", r.Paths, r.ByKind, r.Covers, st.Queries, st.SolverS, st.Instrs, r.Elapsed)
		seen := map[string]int{}
		for _, o := range r.Bad {
			s := sig(in, o)
			seen[s]++
			if seen[s] > 1 {
				continue
			}
			v, _ := nondetVec(o)
			fmt.Printf("  %s %s @ %s nondet=%v obs=%v\n", o.Kind, o.Detail, o.Site, v, o.Obs)
			if *trace {
				n := len(o.Trace)
				if n > 60 {
					n = 60
				}
				for _, t := range o.Trace[len(o.Trace)-n:] {
					fmt.Println("      ", t)
				}
			}
		}
		for s, n := range seen {
			if n > 1 {
				fmt.Printf("  (%d paths) %s\n", n, s)
			}
		}
		for _, o := range r.Samples {
			v, _ := nondetVec(o)
			fmt.Printf("  sample ok nondet=%v obs=%v\n", v, o.Obs)
		}
	case "replay":
		b, err := os.ReadFile(os.Args[2])
		if err != nil {
			fmt.Fprintln(os.Stderr, err)
			os.Exit(2)
		}
		var rf replayFile
		if err := json.Unmarshal(b, &rf); err != nil {
			fmt.Fprintln(os.Stderr, err)
			os.Exit(2)
		}
		if rf.EngineOnly {
			// schedule counterexample: re-execute the recorded decision vector in the engine
			l, err := load()
			if err != nil {
				fmt.Fprintln(os.Stderr, err)
				os.Exit(2)
			}
			fn, err := l.harness(rf.Pkg, rf.Harness)
			if err != nil {
				fmt.Fprintln(os.Stderr, err)
				os.Exit(2)
			}
			sv, err := smt.Start("z3", 60000)
			if err != nil {
				fmt.Fprintln(os.Stderr, err)
				os.Exit(2)
			}
			defer sv.Close()
			e := exec.New(l.World, sv, exec.Config{Unwind: 1200, ContextBound: rf.Ctx, RaceCheck: rf.Race, RandChoice: rf.RandChoice, MaxSched: 30000, Trace: true})
			var prefix []exec.Decision
			for _, d := range rf.Decisions {
				prefix = append(prefix, exec.Decision{Kind: exec.DecKind(d[0]), K: int(d[1]), N: int(d[2]), V: d[3]})
			}
			out := e.RunPath(fn, rf.Args, prefix)
			n := len(out.Trace)
			if n > 80 {
				n = 80
			}
			for _, tl := range out.Trace[len(out.Trace)-n:] {
				fmt.Println("   ", tl)
			}
			fmt.Printf("engine replay outcome: %s %s @ %s (recorded: %s %s @ %s)\n", out.Kind, out.Detail, out.Site, rf.Kind, rf.Detail, rf.Site)
			if out.Kind != "ok" {
				os.Exit(1)
			}
			return
		}
		res, err := runNative([]nativeCase{{ID: 0, Pkg: rf.Pkg, Harness: rf.Harness, Args: rf.Args, Nondet: rf.Nondet}})
		if err != nil {
			fmt.Fprintln(os.Stderr, err)
			os.Exit(2)
		}
		for _, r := range res {
			fmt.Printf("native outcome: %s %s obs=%v (engine: %s %s @ %s)\n", r.Outcome, r.Detail, r.Obs, rf.Kind, rf.Detail, rf.Site)
			if r.Outcome != "ok" {
				os.Exit(1)
			}
		}
	default:
		fmt.Fprintln(os.Stderr, "unknown command")
		os.Exit(2)
	}
}

var _ = exec.Config{}
var _ = smt.Sat
