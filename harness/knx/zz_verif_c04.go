//go:build verif

package knx

import (
	"time"

	"github.com/vapourismo/knx-go/knx/cemi"
	"github.com/vapourismo/knx-go/knx/knxnet"
)

func init() {
	verifHarnesses["HarnessC04Step"] = HarnessC04Step
	verifHarnesses["HarnessC04Stream"] = HarnessC04Stream
}

func vTunnel(sock *vSock, tcp bool) *Tunnel {
	return &Tunnel{
		sock:    sock,
		config:  TunnelConfig{ResendInterval: 2 * time.Second, HeartbeatInterval: 100 * time.Second, ResponseTimeout: 5 * time.Second, UseTCP: tcp},
		ack:     make(chan *knxnet.TunnelRes),
		inbound: make(chan cemi.Message),
		done:    make(chan struct{}),
	}
}

var c04Msgs = [4]cemi.Message{&cemi.LDataInd{}, &cemi.LDataInd{}, &cemi.LDataInd{}, &cemi.LDataInd{}}

// HarnessC04Step: a = {tcp, consumer ready, socket send fails}. One real handleTunnelReq step
// from an arbitrary receiver state: expected number e, connection channel c, request
// (channel, sequence) - all symbolic, wrap-around included.
func HarnessC04Step(a []int) {
	tcp, ready, fail := a[0] == 1, a[1] == 1, a[2] == 1
	sock := newVSock()
	sock.failSend = fail
	conn := vTunnel(sock, tcp)
	c, e := nondetU8(), nondetU8()
	conn.channel = c
	req := &knxnet.TunnelReq{Channel: nondetU8(), SeqNumber: nondetU8(), Payload: c04Msgs[0]}
	seq := e
	got := 0
	reader := func() {
		verifDaemon()
		for m := range conn.inbound {
			if m == c04Msgs[0] {
				got++
			} else {
				got += 100
			}
		}
	}
	if ready {
		go reader()
	}
	conn.handleTunnelReq(req, &seq)
	if !ready {
		// the application starts reading only now, however late
		verifSleep(int64(20 * conn.config.ResponseTimeout))
		go reader()
	}
	alive := verifQuiesce()
	verifAssert("C04.no_goroutine_left", alive == 0)
	match := req.Channel == c
	inSeq := req.SeqNumber == e
	prev := req.SeqNumber == e-1
	verifObserve("got", got)
	verifObserve("acks", len(sock.log))
	if tcp {
		if match {
			verifCover("C04.tcp.delivered")
		}
		verifAssert("C04.tcp.delivered_iff_channel", (got == 1) == match && (got == 0) == !match)
		verifAssert("C04.tcp.no_ack", len(sock.log) == 0)
		verifAssert("C04.tcp.counter_untouched", seq == e)
		return
	}
	if match && inSeq {
		verifCover("C04.delivered")
	}
	if match && prev {
		verifCover("C04.reack")
	}
	verifAssert("C04.delivered_once_iff_expected", (got == 1) == (match && inSeq) && (got == 0) == !(match && inSeq))
	if match && inSeq {
		verifAssert("C04.counter_advances", seq == e+1)
	} else {
		verifAssert("C04.counter_kept", seq == e)
	}
	wantAck := match && (inSeq || prev) && !fail
	if wantAck {
		verifAssert("C04.ack_once", len(sock.log) == 1)
		res, ok := sock.log[0].(*knxnet.TunnelRes)
		verifAssert("C04.ack_fields", ok && res.Channel == c && res.SeqNumber == req.SeqNumber && res.Status == 0)
	} else {
		verifAssert("C04.no_ack", len(sock.log) == 0)
	}
}

// HarnessC04Stream: a = {K, tcp, reader mode 0 always / 1 late}: the real process() goroutine of a
// fresh connection epoch fed with K tunnelling requests of symbolic channel and sequence
// number; deliveries and acknowledgements are compared with the protocol rule, the expected
// number starting at 0.
func HarnessC04Stream(a []int) {
	K, tcp, late := a[0], a[1] == 1, a[2] == 1
	sock := newVSock()
	conn := vTunnel(sock, tcp)
	c := nondetU8()
	conn.channel = c
	got := []cemi.Message{}
	reader := func() {
		verifDaemon()
		for m := range conn.inbound {
			got = append(got, m)
		}
	}
	if !late {
		go reader()
	}
	finished := make(chan error)
	go func() { finished <- conn.process() }()
	var e uint8
	wantDeliver := []cemi.Message{}
	wantAcks := 0
	for i := 0; i < K; i++ {
		req := &knxnet.TunnelReq{Channel: nondetU8(), SeqNumber: nondetU8(), Payload: c04Msgs[i]}
		sock.in <- req
		verifQuiesce()
		nAck := len(sock.log)
		switch {
		case req.Channel != c:
			verifAssert("C04.stream.foreign_ignored", nAck == wantAcks)
		case tcp:
			wantDeliver = append(wantDeliver, req.Payload)
			verifAssert("C04.stream.tcp_no_ack", nAck == 0)
		case req.SeqNumber == e:
			verifCover("C04.stream.accepted")
			wantDeliver = append(wantDeliver, req.Payload)
			e++
			wantAcks++
			verifAssert("C04.stream.ack", nAck == wantAcks)
			res, ok := sock.log[nAck-1].(*knxnet.TunnelRes)
			verifAssert("C04.stream.ack_fields", ok && res.Channel == c && res.SeqNumber == req.SeqNumber && res.Status == 0)
		case req.SeqNumber == e-1:
			verifCover("C04.stream.repeated")
			wantAcks++
			verifAssert("C04.stream.reack", nAck == wantAcks)
			res, ok := sock.log[nAck-1].(*knxnet.TunnelRes)
			verifAssert("C04.stream.ack_fields", ok && res.Channel == c && res.SeqNumber == req.SeqNumber && res.Status == 0)
		default:
			verifAssert("C04.stream.out_of_sequence_ignored", nAck == wantAcks)
		}
	}
	if late {
		close(conn.done) // keep the heartbeat out of the picture while time passes
		verifSleep(int64(20 * conn.config.ResponseTimeout))
		go reader()
	}
	verifQuiesce()
	verifAssert("C04.stream.delivered_count", len(got) == len(wantDeliver))
	// exactly-once: the multiset of delivered telegrams equals the accepted ones (order is C17)
	for _, w := range wantDeliver {
		n := 0
		for _, g := range got {
			if g == w {
				n++
			}
		}
		verifAssert("C04.stream.exactly_once", n == 1)
	}
	if !late {
		close(conn.done)
	}
	err := <-finished
	verifAssert("C04.stream.process_ends", err == nil)
	verifCover("C04.stream.end")
}
