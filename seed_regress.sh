#!/bin/bash
# seed_regress.sh: re-run, for every stored seeded change, the checks that caught it (or its own
# property's check), with the patch applied to /repo (undone straight afterwards). One line per change.
cd /verif
for d in seeded/*/; do
  n=$(basename $d)
  ids=$(python3 - "$d" <<'PY'
import json,sys
m=json.load(open(sys.argv[1]+'meta.json'))
c=[x['check'] for x in m.get('checks_run',[]) if x.get('exit')==1]
print(' '.join(dict.fromkeys(c[:1])) or m['property'])
PY
)
  ./seed_recheck.sh $n $ids 2>&1 | cut -c1-220
  git -C /repo checkout -- . 2>/dev/null
done
