#!/bin/bash
cd /verif
R=${EVAL_REPO:-/repo}
export KV_REPO=$R
export GOFLAGS=-mod=mod GOPROXY=off GOSUMDB=off GOTOOLCHAIN=local
d=$1; shift
name=$(basename $d)
git -C $R apply $d/patch.diff || { echo "$name: patch does not apply"; exit 1; }
(cd $R && go build ./... && go test -vet=off -count=1 ./... > /tmp/benign_$name.suite 2>&1); echo "$name suite exit=$?"
for id in "$@"; do
  KV_OUT=/tmp/kvo_benign timeout 2400 ./check $id quick > /tmp/benign_$name.$id.log 2>&1; rc=$?
  echo "$name check $id exit=$rc $(grep -c '^VIOLATION' /tmp/benign_$name.$id.log) viol; $(grep -m2 'INCONCLUSIVE\|^  Harness' /tmp/benign_$name.$id.log | cut -c1-260 | tr '\n' ' ')"
done
git -C $R checkout -- .
git -C $R clean -fdq
