#!/bin/bash
# seed_recheck.sh <seeded name> [check ids...]: re-run checks against /repo with a stored seeded
# change applied (undone straight afterwards); prints one line per check. Never run concurrently
# with another command that reads /repo.
set -u
R=${EVAL_REPO:-/repo}  # EVAL_REPO: a scratch worktree of /repo to evaluate in (then KV_REPO points the checks at it)
export KV_REPO=$R
name="$1"; shift
d=/verif/seeded/$name
prop=$(python3 -c "import json;print(json.load(open('$d/meta.json'))['property'])")
ids="$*"; [ -z "$ids" ] && ids="$prop"
[ -n "$(git -C $R status --porcelain)" ] && { echo "/repo not clean"; exit 3; }
git -C $R apply "$d/patch.diff" 2>/dev/null || git -C $R apply --3way "$d/patch.diff" >/dev/null 2>&1 || { echo "$name: patch does not apply"; git -C $R checkout -- .; git -C $R reset -q; exit 4; }
git -C $R reset -q
for id in $ids; do
  KV_OUT=/tmp/kvout_re_$name timeout 2400 /verif/check $id quick > /tmp/re_$name.$id.log 2>&1; rc=$?
  echo "$name $id exit=$rc viol=$(grep -c '^VIOLATION' /tmp/re_$name.$id.log) $(grep -m1 -A1 '^VIOLATION' /tmp/re_$name.$id.log | tail -1 | cut -c1-160) $(grep -m1 INCONCLUSIVE /tmp/re_$name.$id.log | cut -c1-160)"
done
git -C $R checkout -- .
rm -rf /tmp/kvout_re_$name
