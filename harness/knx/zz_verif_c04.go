//go:build verif

package knx

import (
	"github.com/vapourismo/knx-go/knx/knxnet"
)

func init() {
	verifHarnesses["HarnessC04Step"] = HarnessC04Step
}

// HarnessC04Step: a = {tcp, consumer ready, socket send fails}. One real handleTunnelReq step
// from an arbitrary receiver state: expected number e, connection channel c, request
// (channel, sequence) - all symbolic, wrap-around included.
func HarnessC04Step(a []int) {
	tcp, ready, fail := a[0] == 1, a[1] == 1, a[2] == 1
	sock := newVSock()
	sock.failSend = fail
	conn := vTunnel(sock, tcp)
	c, e := nondetU8(), nondetU8()
	conn.channel = c
	payload := c04Msgs[nondetChoice(7)] // any cEMI kind
	req := &knxnet.TunnelReq{Channel: nondetU8(), SeqNumber: nondetU8(), Payload: payload}
	seq := e
	got := 0
	reader := func() {
		verifDaemon()
		for m := range conn.inbound {
			if m == payload {
				got++
			} else {
				got += 100
			}
		}
	}
	if ready {
		go reader()
	}
	conn.handleTunnelReq(req, &seq)
	if !ready {
		// the application starts reading only now, however late
		verifSleep(int64(20 * conn.config.ResponseTimeout))
		go reader()
	}
	alive := verifQuiesce()
	verifAssert("C04.no_goroutine_left", alive == 0)
	match := req.Channel == c
	inSeq := req.SeqNumber == e
	prev := req.SeqNumber == e-1
	verifObserve("got", got)
	verifObserve("acks", len(sock.log))
	if tcp {
		if match {
			verifCover("C04.tcp.delivered")
		}
		verifAssert("C04.tcp.delivered_iff_channel", (got == 1) == match && (got == 0) == !match)
		verifAssert("C04.tcp.no_ack", len(sock.log) == 0)
		verifAssert("C04.tcp.counter_untouched", seq == e)
		return
	}
	if match && inSeq {
		verifCover("C04.delivered")
	}
	if match && prev {
		verifCover("C04.reack")
	}
	verifAssert("C04.delivered_once_iff_expected", (got == 1) == (match && inSeq) && (got == 0) == !(match && inSeq))
	if match && inSeq {
		verifAssert("C04.counter_advances", seq == e+1)
	} else {
		verifAssert("C04.counter_kept", seq == e)
	}
	wantAck := match && (inSeq || prev) && !fail
	if wantAck {
		verifAssert("C04.ack_once", len(sock.log) == 1)
		res, ok := sock.log[0].(*knxnet.TunnelRes)
		verifAssert("C04.ack_fields", ok && res.Channel == c && res.SeqNumber == req.SeqNumber && res.Status == 0)
	} else {
		verifAssert("C04.no_ack", len(sock.log) == 0)
	}
}
