package exec

import (
	"fmt"
	"go/token"
	"go/types"

	"golang.org/x/tools/go/ssa"

	"kv/term"
)

func (e *Exec) binop(op token.Token, a, b Value, ta, tb types.Type) Value {
	switch x := a.(type) {
	case *term.T:
		y, ok := b.(*term.T)
		if !ok {
			e.unsupported("binop %v on %T,%T", op, a, b)
		}
		switch x.Sort.K {
		case term.Bool:
			switch op {
			case token.EQL:
				return e.C.Eq(x, y)
			case token.NEQ:
				return e.C.BNot(e.C.Eq(x, y))
			case token.AND, token.LAND:
				return e.C.BAnd(x, y)
			case token.OR, token.LOR:
				return e.C.BOr(x, y)
			}
		case term.FP:
			return e.fbinop(op, x, y)
		case term.BV:
			return e.ibinop(op, x, y, ta, tb)
		}
	case *Str:
		return e.strBinop(op, x, b.(*Str))
	case Ptr:
		y := b.(Ptr)
		eq := ptrEq(x, y)
		if op == token.EQL {
			return e.C.BoolConst(eq)
		}
		if op == token.NEQ {
			return e.C.BoolConst(!eq)
		}
	case Iface:
		r := e.ifaceEq(x, b.(Iface))
		if op == token.EQL {
			return r
		}
		if op == token.NEQ {
			return e.C.BNot(r)
		}
	case *Chan:
		eq := x == b.(*Chan)
		if op == token.NEQ {
			eq = !eq
		}
		return e.C.BoolConst(eq)
	case Slice:
		// only comparison with nil
		y := b.(Slice)
		eq := x.IsNil() && y.IsNil()
		if op == token.NEQ {
			eq = !eq
		}
		return e.C.BoolConst(eq)
	case *Map:
		eq := x == b.(*Map)
		if op == token.NEQ {
			eq = !eq
		}
		return e.C.BoolConst(eq)
	case *Closure:
		eq := x == nil && b.(*Closure) == nil
		if op == token.NEQ {
			eq = !eq
		}
		return e.C.BoolConst(eq)
	case *Struct:
		r := e.valEq(a, b)
		if op == token.NEQ {
			return e.C.BNot(r)
		}
		return r
	case *Array:
		r := e.valEq(a, b)
		if op == token.NEQ {
			return e.C.BNot(r)
		}
		return r
	}
	e.unsupported("binop %v on %T,%T", op, a, b)
	return nil
}

// valEq builds the equality term of two comparable values.
func (e *Exec) valEq(a, b Value) *term.T {
	switch x := a.(type) {
	case *term.T:
		y := b.(*term.T)
		if x.Sort.K == term.FP {
			return e.C.FCmp(term.OpFEq, x, y)
		}
		return e.C.Eq(x, y)
	case *Struct:
		y := b.(*Struct)
		r := e.C.True
		for i := range x.F {
			r = e.C.BAnd(r, e.valEq(x.F[i], y.F[i]))
		}
		return r
	case *Array:
		y := b.(*Array)
		r := e.C.True
		for i := range x.E {
			r = e.C.BAnd(r, e.valEq(x.E[i], y.E[i]))
		}
		return r
	case Ptr:
		return e.C.BoolConst(ptrEq(x, b.(Ptr)))
	case *Str:
		return e.strEq(x, b.(*Str))
	case Iface:
		return e.ifaceEq(x, b.(Iface))
	case *Chan:
		return e.C.BoolConst(x == b.(*Chan))
	}
	e.unsupported("equality on %T", a)
	return nil
}

func (e *Exec) ifaceEq(x, y Iface) *term.T {
	if x.T == nil || y.T == nil {
		return e.C.BoolConst(x.T == nil && y.T == nil)
	}
	if !types.Identical(x.T, y.T) {
		return e.C.False
	}
	return e.valEq(x.V, y.V)
}

func (e *Exec) ibinop(op token.Token, x, y *term.T, ta, tb types.Type) Value {
	c := e.C
	signed := isSigned(ta)
	switch op {
	case token.ADD:
		return c.Bin(term.OpAdd, x, y)
	case token.SUB:
		return c.Bin(term.OpSub, x, y)
	case token.MUL:
		return c.Bin(term.OpMul, x, y)
	case token.QUO, token.REM:
		if e.Branch(c.Eq(y, c.BVConst(y.Sort.W, 0)), "div0") {
			e.goPanic("integer divide by zero")
		}
		if signed {
			if op == token.QUO {
				return c.Bin(term.OpSDiv, x, y)
			}
			return c.Bin(term.OpSRem, x, y)
		}
		if op == token.QUO {
			return c.Bin(term.OpUDiv, x, y)
		}
		return c.Bin(term.OpURem, x, y)
	case token.AND:
		return c.Bin(term.OpAnd, x, y)
	case token.OR:
		return c.Bin(term.OpOr, x, y)
	case token.XOR:
		return c.Bin(term.OpXor, x, y)
	case token.AND_NOT:
		return c.Bin(term.OpAnd, x, c.Not(y))
	case token.SHL, token.SHR:
		// shift count may have another width / signedness
		w := x.Sort.W
		var cnt *term.T
		if isSigned(tb) {
			if e.Branch(c.Cmp(term.OpSLt, y, c.BVConst(y.Sort.W, 0)), "negshift") {
				e.goPanic("negative shift amount")
			}
		}
		if y.Sort.W < w {
			cnt = c.ZExt(y, w)
		} else if y.Sort.W > w {
			// large counts saturate
			big := c.Cmp(term.OpULe, c.BVConst(y.Sort.W, uint64(w)), y)
			cnt = c.Ite(big, c.BVConst(w, uint64(w)), c.Extract(y, w-1, 0))
		} else {
			cnt = y
		}
		if op == token.SHL {
			return c.Bin(term.OpShl, x, cnt)
		}
		if signed {
			return c.Bin(term.OpAShr, x, cnt)
		}
		return c.Bin(term.OpLShr, x, cnt)
	case token.EQL:
		return c.Eq(x, y)
	case token.NEQ:
		return c.BNot(c.Eq(x, y))
	case token.LSS:
		if signed {
			return c.Cmp(term.OpSLt, x, y)
		}
		return c.Cmp(term.OpULt, x, y)
	case token.LEQ:
		if signed {
			return c.Cmp(term.OpSLe, x, y)
		}
		return c.Cmp(term.OpULe, x, y)
	case token.GTR:
		if signed {
			return c.Cmp(term.OpSLt, y, x)
		}
		return c.Cmp(term.OpULt, y, x)
	case token.GEQ:
		if signed {
			return c.Cmp(term.OpSLe, y, x)
		}
		return c.Cmp(term.OpULe, y, x)
	}
	e.unsupported("int binop %v", op)
	return nil
}

func (e *Exec) fbinop(op token.Token, x, y *term.T) Value {
	c := e.C
	switch op {
	case token.ADD:
		return c.FBin(term.OpFAdd, x, y)
	case token.SUB:
		return c.FBin(term.OpFSub, x, y)
	case token.MUL:
		return c.FBin(term.OpFMul, x, y)
	case token.QUO:
		return c.FBin(term.OpFDiv, x, y)
	case token.EQL:
		return c.FCmp(term.OpFEq, x, y)
	case token.NEQ:
		return c.BNot(c.FCmp(term.OpFEq, x, y))
	case token.LSS:
		return c.FCmp(term.OpFLt, x, y)
	case token.LEQ:
		return c.FCmp(term.OpFLe, x, y)
	case token.GTR:
		return c.FCmp(term.OpFLt, y, x)
	case token.GEQ:
		return c.FCmp(term.OpFLe, y, x)
	}
	e.unsupported("float binop %v", op)
	return nil
}

func (e *Exec) unop(x *ssa.UnOp, v Value) Value {
	switch x.Op {
	case token.NOT:
		return e.C.BNot(v.(*term.T))
	case token.SUB:
		t := v.(*term.T)
		if t.Sort.K == term.FP {
			return e.C.FNeg(t)
		}
		return e.C.Neg(t)
	case token.XOR:
		return e.C.Not(v.(*term.T))
	case token.MUL:
		return e.load(v.(Ptr))
	}
	e.unsupported("unop %v", x.Op)
	return nil
}

// ---- conversions --------------------------------------------------------------------------

func (e *Exec) convert(v Value, from, to types.Type) Value {
	c := e.C
	fu, tu := from.Underlying(), to.Underlying()
	switch {
	case isInt(fu) && isInt(tu):
		x := v.(*term.T)
		tw := width(tu)
		if tw <= x.Sort.W {
			return c.Extract(x, tw-1, 0)
		}
		if isSigned(fu) {
			return c.SExt(x, tw)
		}
		return c.ZExt(x, tw)
	case isInt(fu) && isFloat(tu):
		return c.FFromInt(v.(*term.T), width(tu), isSigned(fu))
	case isFloat(fu) && isFloat(tu):
		return c.FConv(v.(*term.T), width(tu))
	case isFloat(fu) && isInt(tu):
		return e.floatToInt(v.(*term.T), tu)
	case isString(fu) && isString(tu):
		return v
	case isInt(fu) && isString(tu):
		// string(rune)
		x := v.(*term.T)
		r := c.ZExt(x, 64)
		r = c.Extract(r, 31, 0)
		return &Str{R: []*term.T{e.validRune(r)}, Runes: true}
	}
	if sl, ok := tu.(*types.Slice); ok && isString(fu) {
		s := v.(*Str)
		eb := sl.Elem().Underlying().(*types.Basic)
		if eb.Kind() == types.Byte || eb.Kind() == types.Uint8 {
			if s.Runes && !e.allASCII(s) {
				// keep the rune form: the UTF-8 length would fork per rune
				obj := e.newObj(nil, &Array{})
				obj.Lazy = s
				return Slice{Arr: obj, Len: len(s.R), Cap: len(s.R)}
			}
			bs := e.strBytes(s)
			obj := e.newArrayObj(sl.Elem(), len(bs))
			for i, b := range bs {
				obj.V.(*Array).E[i] = b
			}
			return Slice{Arr: obj, Len: len(bs), Cap: len(bs)}
		}
		rs := e.strRunes(s)
		obj := e.newArrayObj(sl.Elem(), len(rs))
		for i, r := range rs {
			obj.V.(*Array).E[i] = r
		}
		return Slice{Arr: obj, Len: len(rs), Cap: len(rs)}
	}
	if sl, ok := fu.(*types.Slice); ok && isString(tu) {
		s := v.(Slice)
		eb := sl.Elem().Underlying().(*types.Basic)
		if s.Arr != nil && s.Arr.Lazy != nil {
			return s.Arr.Lazy
		}
		out := make([]*term.T, s.Len)
		for i := 0; i < s.Len; i++ {
			out[i] = e.sliceElem(s, i).(*term.T)
		}
		if eb.Kind() == types.Byte || eb.Kind() == types.Uint8 {
			return &Str{B: out}
		}
		for i := range out {
			out[i] = e.validRune(out[i])
		}
		return &Str{R: out, Runes: true}
	}
	if _, ok := tu.(*types.Pointer); ok {
		return v
	}
	if b, ok := tu.(*types.Basic); ok && b.Kind() == types.UnsafePointer {
		e.unsupported("conversion to unsafe.Pointer")
	}
	e.unsupported("convert %v -> %v", from, to)
	return nil
}

// floatToInt follows the amd64 code the gc compiler emits: CVTTSS2SQ/CVTTSD2SQ
// (64-bit "integer indefinite" 0x8000000000000000 when out of range or NaN)
// for 64-bit and uint32 targets, CVTTSS2SL (32-bit indefinite 0x80000000) for
// the narrower targets, then truncation to the target width.
func (e *Exec) floatToInt(x *term.T, tu types.Type) Value {
	c := e.C
	tw := width(tu)
	b := tu.(*types.Basic)
	fw := x.Sort.W
	mk := func(f float64) *term.T {
		if fw == 32 {
			return c.F32(float32(f))
		}
		return c.F64(f)
	}
	conv := func(w int) *term.T {
		lim := 9223372036854775808.0
		if w == 32 {
			lim = 2147483648.0
		}
		inRange := c.BAnd(c.FCmp(term.OpFLe, mk(-lim), x), c.FCmp(term.OpFLt, x, mk(lim)))
		return c.Ite(inRange, c.FToSInt(x, w), c.BVConst(w, uint64(1)<<uint(w-1)))
	}
	switch b.Kind() {
	case types.Int, types.Int64, types.Uint32:
		r := conv(64)
		return c.Extract(r, tw-1, 0)
	case types.Int32, types.Int16, types.Int8, types.Uint16, types.Uint8:
		r := conv(32)
		return c.Extract(r, tw-1, 0)
	case types.Uint, types.Uint64, types.Uintptr:
		// x < 2^63 ? cvtt(x) : cvtt(x - 2^63) ^ 0x8000...
		small := c.FCmp(term.OpFLt, x, mk(9223372036854775808.0))
		hi := c.Bin(term.OpXor, conv64of(c, c.FBin(term.OpFSub, x, mk(9223372036854775808.0)), fw), c.BVConst(64, uint64(1)<<63))
		return c.Ite(small, conv(64), hi)
	}
	e.unsupported("float to %v", tu)
	return nil
}

func conv64of(c *term.Ctx, x *term.T, fw int) *term.T {
	mk := func(f float64) *term.T {
		if fw == 32 {
			return c.F32(float32(f))
		}
		return c.F64(f)
	}
	lim := 9223372036854775808.0
	inRange := c.BAnd(c.FCmp(term.OpFLe, mk(-lim), x), c.FCmp(term.OpFLt, x, mk(lim)))
	return c.Ite(inRange, c.FToSInt(x, 64), c.BVConst(64, uint64(1)<<63))
}

// ---- indexing and slicing -------------------------------------------------------------------

func (e *Exec) sliceElem(s Slice, i int) Value {
	e.checkRegion(s.Arr, s.Off+i, "read")
	return e.sliceArr(s).E[s.Off+i]
}

// boundsCheck branches on 0 <= idx < n and panics on the failing side; returns concrete index.
func (e *Exec) boundsIdx(idx *term.T, it types.Type, n int, what string) *term.T {
	c := e.C
	i64 := idx
	if idx.Sort.W < 64 {
		if isSigned(it) {
			i64 = c.SExt(idx, 64)
		} else {
			i64 = c.ZExt(idx, 64)
		}
	}
	// unsigned comparison covers negatives as well
	ok := c.Cmp(term.OpULt, i64, c.BVConst(64, uint64(n)))
	if !e.Branch(ok, what) {
		e.goPanic(fmt.Sprintf("index out of range [%s] with length %d", e.descr(i64), n))
	}
	return i64
}

func (e *Exec) descr(t *term.T) string {
	if t.IsConst() {
		return fmt.Sprint(int64(t.Val))
	}
	return "sym"
}

func (e *Exec) indexAddr(base Value, idx *term.T, it types.Type) Value {
	switch b := base.(type) {
	case Slice:
		i64 := e.boundsIdx(idx, it, b.Len, "index")
		i := int(e.Concretize(i64, "index"))
		return Ptr{Obj: b.Arr, Path: []int{b.Off + i}}
	case Ptr:
		if b.IsNil() {
			e.goPanic("nil pointer dereference")
		}
		arr := e.peek(b).(*Array)
		i64 := e.boundsIdx(idx, it, len(arr.E), "index")
		i := int(e.Concretize(i64, "index"))
		return b.child(i)
	}
	e.unsupported("indexAddr on %T", base)
	return nil
}

// peek navigates without copying (read-only use).
func (e *Exec) peek(p Ptr) Value {
	v := p.Obj.V
	for _, i := range p.Path {
		switch c := v.(type) {
		case *Struct:
			v = c.F[i]
		case *Array:
			v = c.E[i]
		}
	}
	return v
}

func (e *Exec) indexVal(base Value, idx *term.T, it types.Type) Value {
	switch b := base.(type) {
	case *Array:
		i64 := e.boundsIdx(idx, it, len(b.E), "index")
		if i64.IsConst() {
			return copyVal(b.E[i64.Val])
		}
		return e.iteRead(b.E, i64)
	case *Str:
		bs := e.strBytes(b)
		i64 := e.boundsIdx(idx, it, len(bs), "index")
		if i64.IsConst() {
			return bs[i64.Val]
		}
		vs := make([]Value, len(bs))
		for i := range bs {
			vs[i] = bs[i]
		}
		return e.iteRead(vs, i64)
	}
	e.unsupported("index on %T", base)
	return nil
}

func (e *Exec) iteRead(elems []Value, idx *term.T) Value {
	// all elements must be scalar terms
	var r *term.T
	for i := len(elems) - 1; i >= 0; i-- {
		t, ok := elems[i].(*term.T)
		if !ok {
			j := int(e.Concretize(idx, "index"))
			return copyVal(elems[j])
		}
		if r == nil {
			r = t
		} else {
			r = e.C.Ite(e.C.Eq(idx, e.C.BVConst(64, uint64(i))), t, r)
		}
	}
	return r
}

func (e *Exec) makeSlice(f *Frame, x *ssa.MakeSlice) Value {
	lt := e.toInt(e.get(f, x.Len), x.Len.Type())
	ct := e.toInt(e.get(f, x.Cap), x.Cap.Type())
	c := e.C
	if e.Branch(c.Cmp(term.OpSLt, lt, c.BVConst(64, 0)), "makeslice") {
		e.goPanic("makeslice: len out of range")
	}
	n := int(e.Concretize(lt, "makeslice.len"))
	if e.Branch(c.Cmp(term.OpSLt, ct, c.BVConst(64, uint64(n))), "makeslice") {
		e.goPanic("makeslice: cap out of range")
	}
	cp := int(e.Concretize(ct, "makeslice.cap"))
	if cp > 1<<20 {
		e.unsupported("makeslice too large: %d", cp)
	}
	el := x.Type().Underlying().(*types.Slice).Elem()
	obj := e.newArrayObj(el, cp)
	return Slice{Arr: obj, Len: n, Cap: cp}
}

func (e *Exec) sliceOp(f *Frame, x *ssa.Slice) Value {
	base := e.get(f, x.X)
	c := e.C
	getb := func(v ssa.Value) *term.T {
		if v == nil {
			return nil
		}
		return e.toInt(e.get(f, v), v.Type())
	}
	lo, hi, mx := getb(x.Low), getb(x.High), getb(x.Max)
	var ln, cp int
	var str *Str
	var sl Slice
	var arrPtr Ptr
	kind := 0
	switch b := base.(type) {
	case Slice:
		sl = b
		if b.Arr != nil && b.Arr.Lazy != nil {
			e.sliceArr(b)
		}
		ln, cp = b.Len, b.Cap
	case *Str:
		str = b
		bs := e.strBytes(b)
		ln, cp = len(bs), len(bs)
		kind = 1
	case Ptr:
		if b.IsNil() {
			e.goPanic("nil pointer dereference")
		}
		arr := e.peek(b).(*Array)
		ln, cp = len(arr.E), len(arr.E)
		arrPtr = b
		kind = 2
	default:
		e.unsupported("slice of %T", base)
	}
	if lo == nil {
		lo = c.BVConst(64, 0)
	}
	if hi == nil {
		hi = c.BVConst(64, uint64(ln))
	}
	limit := cp
	if kind == 1 {
		limit = ln
	}
	if mx != nil {
		if !e.Branch(c.Cmp(term.OpULe, mx, c.BVConst(64, uint64(cp))), "slice.max") {
			e.goPanic(fmt.Sprintf("slice bounds out of range [::%s] with capacity %d", e.descr(mx), cp))
		}
		m := int(e.Concretize(mx, "slice.max"))
		limit = m
	}
	if !e.Branch(c.Cmp(term.OpULe, hi, c.BVConst(64, uint64(limit))), "slice.high") {
		e.goPanic(fmt.Sprintf("slice bounds out of range [:%s] with capacity %d", e.descr(hi), limit))
	}
	if !e.Branch(c.Cmp(term.OpULe, lo, hi), "slice.low") {
		e.goPanic(fmt.Sprintf("slice bounds out of range [%s:%s]", e.descr(lo), e.descr(hi)))
	}
	h := int(e.Concretize(hi, "slice.high"))
	l := int(e.Concretize(lo, "slice.low"))
	switch kind {
	case 0:
		if sl.Arr == nil {
			return Slice{}
		}
		return Slice{Arr: sl.Arr, Off: sl.Off + l, Len: h - l, Cap: limit - l}
	case 1:
		bs := e.strBytes(str)
		return &Str{B: bs[l:h]}
	default:
		// pointer to array: the array lives inside an object; only top-level arrays are sliceable
		if len(arrPtr.Path) != 0 {
			// materialise: slices into nested arrays need an addressable backing object
			return e.sliceNested(arrPtr, l, h, limit)
		}
		return Slice{Arr: arrPtr.Obj, Off: l, Len: h - l, Cap: limit - l}
	}
}

// sliceNested handles &struct.field[:] where field is an array nested in an
// object: the nested *Array is shared by reference through a view object.
func (e *Exec) sliceNested(p Ptr, l, h, limit int) Value {
	arr := e.peek(p).(*Array)
	key := fmt.Sprintf("%d/%v", p.Obj.ID, p.Path)
	if e.views == nil {
		e.views = map[string]*Object{}
	}
	vo, ok := e.views[key]
	if !ok || vo.V != arr {
		vo = e.newObj(nil, arr) // shares the *Array with the parent object
		e.views[key] = vo
	}
	return Slice{Arr: vo, Off: l, Len: h - l, Cap: limit - l}
}

// ---- region (C01) ------------------------------------------------------------------------------

func (e *Exec) checkRegion(o *Object, idx int, what string) {
	if o != nil && o.Valid >= 0 && idx >= o.Valid {
		panic(pathEnd{kind: "region", detail: fmt.Sprintf("%s of byte %d beyond the %d-byte input", what, idx, o.Valid), site: e.where()})
	}
}

func (e *Exec) checkRegionSlice(o *Object, lo, hi int) {
	if o != nil && o.Valid >= 0 && hi > o.Valid && hi > lo {
		panic(pathEnd{kind: "region", detail: fmt.Sprintf("slice [%d:%d] reaches beyond the %d-byte input", lo, hi, o.Valid), site: e.where()})
	}
}

// ---- maps -----------------------------------------------------------------------------------------

func (e *Exec) keyOf(k Value) (string, bool) {
	switch x := k.(type) {
	case *Str:
		s, ok := e.concreteStr(x)
		return "s:" + s, ok
	case *term.T:
		if x.IsConst() {
			return fmt.Sprintf("i:%d", x.Val), true
		}
		return "", false
	case Ptr:
		return fmt.Sprintf("p:%p%v", x.Obj, x.Path), true
	case Iface:
		if x.T == nil {
			return "nil", true
		}
		s, ok := e.keyOf(x.V)
		return x.T.String() + "/" + s, ok
	}
	return "", false
}

func (e *Exec) mapSet(m *Map, k, v Value) {
	ks, ok := e.keyOf(k)
	if !ok {
		e.unsupported("symbolic map key in update")
	}
	if i, ok := m.K[ks]; ok {
		m.Vals[i] = v
		return
	}
	m.K[ks] = len(m.Keys)
	m.Keys = append(m.Keys, k)
	m.Vals = append(m.Vals, v)
	e.memVer++
}

func (e *Exec) lookup(x *ssa.Lookup, base, key Value) Value {
	if s, ok := base.(*Str); ok {
		return e.indexVal(s, key.(*term.T), x.Index.Type())
	}
	m := base.(*Map)
	vt := x.X.Type().Underlying().(*types.Map).Elem()
	var val Value
	found := e.C.False
	if m != nil {
		if ks, ok := e.keyOf(key); ok {
			if i, ok := m.K[ks]; ok {
				val = copyVal(m.Vals[i])
				found = e.C.True
			}
		} else if ksym, ok := key.(*Str); ok {
			// symbolic string key: decide membership entry by entry
			for i, k := range m.Keys {
				eq := e.strEq(ksym, k.(*Str))
				if e.Branch(eq, "maplookup") {
					val = copyVal(m.Vals[i])
					found = e.C.True
					break
				}
			}
		} else if kt, ok := key.(*term.T); ok {
			// symbolic integer key: decide entry by entry (maps used as lookup tables)
			for i, k := range m.Keys {
				ck, ok := k.(*term.T)
				if !ok || ck.Sort != kt.Sort {
					continue
				}
				if e.Branch(e.C.Eq(kt, ck), "maplookup") {
					val = copyVal(m.Vals[i])
					found = e.C.True
					break
				}
			}
		} else {
			e.unsupported("symbolic map key")
		}
	}
	if val == nil {
		val = e.zero(vt)
	}
	if x.CommaOk {
		return Tuple{val, found}
	}
	return val
}

func (e *Exec) rangeIter(v Value) Value {
	switch x := v.(type) {
	case *Map:
		it := &Iter{M: x}
		if x != nil {
			for i := range x.Keys {
				it.Keys = append(it.Keys, i)
			}
		}
		return it
	case *Str:
		return &Iter{S: x}
	}
	e.unsupported("range over %T", v)
	return nil
}

func (e *Exec) next(x *ssa.Next, it *Iter) Value {
	c := e.C
	if x.IsString {
		rs := e.strRunes(it.S)
		if it.Pos >= len(rs) {
			return Tuple{c.False, c.BVConst(64, 0), c.BVConst(32, 0)}
		}
		// byte index is only tracked for byte strings whose runes are ASCII; report rune index
		r := rs[it.Pos]
		idx := c.BVConst(64, uint64(it.Pos))
		it.Pos++
		return Tuple{c.True, idx, r}
	}
	if it.Pos >= len(it.Keys) {
		mt := it.M
		var kz, vz Value = c.BVConst(64, 0), c.BVConst(64, 0)
		if mt != nil {
			kz, vz = e.zero(mt.T.Key()), e.zero(mt.T.Elem())
		}
		return Tuple{c.False, kz, vz}
	}
	i := it.Keys[it.Pos]
	it.Pos++
	return Tuple{c.True, it.M.Keys[i], copyVal(it.M.Vals[i])}
}

// ---- type assertions ----------------------------------------------------------------------------------

func (e *Exec) typeAssert(x *ssa.TypeAssert, v Iface) Value {
	at := x.AssertedType
	var ok bool
	var res Value
	if v.T != nil {
		if it, isI := at.Underlying().(*types.Interface); isI {
			ok = types.Implements(v.T, it)
			if ok {
				res = v
			}
		} else {
			ok = types.Identical(v.T, at)
			if ok {
				res = copyVal(v.V)
			}
		}
	}
	if x.CommaOk {
		if !ok {
			if _, isI := at.Underlying().(*types.Interface); isI {
				res = Iface{}
			} else {
				res = e.zero(at)
			}
		}
		return Tuple{res, e.C.BoolConst(ok)}
	}
	if !ok {
		dyn := "nil"
		if v.T != nil {
			dyn = v.T.String()
		}
		e.goPanic(fmt.Sprintf("interface conversion: interface is %s, not %s", dyn, at.String()))
	}
	return res
}
