//go:build verif

package cemi

func init() {
	verifHarnesses["HarnessC11Helpers"] = HarnessC11Helpers
	verifHarnesses["HarnessC11Pack"] = HarnessC11Pack
	verifHarnesses["HarnessC11Unpack"] = HarnessC11Unpack
}

// HarnessC11Helpers: flag constructors and accessors over their whole 8-bit domains.
func HarnessC11Helpers(a []int) {
	h := nondetU8()
	c2 := Control2Hops(h)
	want := h
	if want > 7 {
		want = 7
	}
	verifAssert("C11.hops.ctor_layout", uint8(c2) == want<<4)
	verifObserve("hops", c2.Hops())
	verifAssert("C11.hops.accessor", c2.Hops() == want)

	any := ControlField2(nondetU8())
	verifAssert("C11.hops.accessor_any", any.Hops() == (uint8(any)>>4)&7)
	verifAssert("C11.isgroup", any.IsGroupAddr() == (uint8(any)>>7 == 1))

	p := Priority(nondetU8())
	verifAssert("C11.prio", uint8(Control1Prio(p)) == (uint8(p)&3)<<2)

	ap := APCI(nondetU8())
	verifAssert("C11.groupcmd", ap.IsGroupCommand() == (ap < 3))

	// named flag constants sit where the specification puts them
	verifAssert("C11.flags", uint8(Control1StdFrame) == 0x80 && uint8(Control1NoRepeat) == 0x20 &&
		uint8(Control1NoSysBroadcast) == 0x10 && uint8(Control1WantAck) == 0x02 && uint8(Control1HasError) == 0x01 &&
		uint8(Control2GroupAddr) == 0x80)
	verifCover("C11.helpers.end")
}

var c11Codes = [3]uint8{0x11, 0x2E, 0x29}

// HarnessC11Pack: a = {kind 0..2 (req, con, ind), info length, payload length, 0 = data unit / 1 = control unit}.
// The reference layout is written from the cEMI specification (DESIGN B.2), not from the implementation.
func HarnessC11Pack(a []int) {
	kind, infoLen, dataLen, isCtl := a[0], a[1], a[2], a[3]
	info := nondetBytes(infoLen)
	c1, c2 := nondetU8(), nondetU8()
	src, dst := nondetU16(), nondetU16()
	numbered := nondetBool()
	seq := nondetU8() // any value: only the low four bits of a numbered unit reach the wire
	ref := []byte{c11Codes[kind], byte(infoLen)}
	ref = append(ref, info...)
	ref = append(ref, c1, c2, byte(src>>8), byte(src), byte(dst>>8), byte(dst))
	var unit TransportUnit
	var tnum uint8
	if numbered {
		tnum = 0x40 | (seq&15)<<2
	}
	if isCtl == 1 {
		cmd := nondetU8() & 3
		unit = &ControlData{Numbered: numbered, SeqNumber: seq, Command: cmd}
		ref = append(ref, 0, 0x80|tnum|cmd)
	} else {
		apci := nondetU8() & 15
		data := nondetBytes(dataLen)
		unit = &AppData{Numbered: numbered, SeqNumber: seq, Command: APCI(apci), Data: data}
		ref = append(ref, byte(dataLen), tnum|apci>>2, (apci&3)<<6|data[0]&0x3F)
		ref = append(ref, data[1:]...)
	}
	ld := LData{Info: Info(info), Control1: ControlField1(c1), Control2: ControlField2(c2),
		Source: IndividualAddr(src), Destination: dst, Data: unit}
	var msg Message
	switch kind {
	case 0:
		msg = &LDataReq{ld}
	case 1:
		msg = &LDataCon{ld}
	default:
		msg = &LDataInd{ld}
	}
	buf := make([]byte, Size(msg))
	Pack(buf, msg)
	verifAssert("C11.pack.len", len(buf) == len(ref))
	for i := range ref {
		verifAssert("C11.pack.byte", buf[i] == ref[i])
	}
	verifObserve("b0", buf[0])
	verifObserve("last", buf[len(buf)-1])
	verifCover("C11.pack.end")
}

// HarnessC11Unpack: a as above; every octet of a specification-shaped layout is symbolic.
func HarnessC11Unpack(a []int) {
	kind, infoLen, dataLen, isCtl := a[0], a[1], a[2], a[3]
	info := nondetBytes(infoLen)
	c1, c2 := nondetU8(), nondetU8()
	sh, sl, dh, dl := nondetU8(), nondetU8(), nondetU8(), nondetU8()
	t := nondetU8()
	buf := []byte{c11Codes[kind], byte(infoLen)}
	buf = append(buf, info...)
	buf = append(buf, c1, c2, sh, sl, dh, dl)
	var ab uint8
	var rest []byte
	if isCtl == 1 {
		t |= 0x80
		buf = append(buf, 0, t)
	} else {
		t &= 0x7F
		ab = nondetU8()
		rest = nondetBytes(dataLen - 1)
		buf = append(buf, byte(dataLen), t, ab)
		buf = append(buf, rest...)
	}
	var msg Message
	n, err := Unpack(buf, &msg)
	verifAssert("C11.unpack.accepts", err == nil)
	verifAssert("C11.unpack.consumed", n == uint(len(buf)))
	var ld *LData
	switch m := msg.(type) {
	case *LDataReq:
		verifAssert("C11.unpack.code", kind == 0)
		ld = &m.LData
	case *LDataCon:
		verifAssert("C11.unpack.code", kind == 1)
		ld = &m.LData
	case *LDataInd:
		verifAssert("C11.unpack.code", kind == 2)
		ld = &m.LData
	default:
		verifFail("C11.unpack.type")
		return
	}
	verifAssert("C11.unpack.msgcode", uint8(msg.MessageCode()) == c11Codes[kind])
	verifAssert("C11.unpack.infolen", len(ld.Info) == infoLen)
	for i := range info {
		verifAssert("C11.unpack.info", ld.Info[i] == info[i])
	}
	verifAssert("C11.unpack.ctrl", uint8(ld.Control1) == c1 && uint8(ld.Control2) == c2)
	verifAssert("C11.unpack.src", uint16(ld.Source) == uint16(sh)<<8|uint16(sl))
	verifAssert("C11.unpack.dst", ld.Destination == uint16(dh)<<8|uint16(dl))
	numbered := t&0x40 != 0
	seq := (t >> 2) & 15
	if isCtl == 1 {
		cd, ok := ld.Data.(*ControlData)
		verifAssert("C11.unpack.unit", ok)
		verifAssert("C11.unpack.tpci", cd.Numbered == numbered && cd.SeqNumber == seq && cd.Command == t&3)
	} else {
		ad, ok := ld.Data.(*AppData)
		verifAssert("C11.unpack.unit", ok)
		verifAssert("C11.unpack.tpci", ad.Numbered == numbered && ad.SeqNumber == seq)
		verifAssert("C11.unpack.apci", uint8(ad.Command) == (t&3)<<2|ab>>6)
		verifAssert("C11.unpack.datalen", len(ad.Data) == dataLen)
		verifAssert("C11.unpack.short", ad.Data[0] == ab&0x3F)
		for i := range rest {
			verifAssert("C11.unpack.data", ad.Data[i+1] == rest[i])
		}
		verifObserve("apci", uint8(ad.Command))
	}
	verifCover("C11.unpack.end")
}
