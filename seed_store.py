#!/usr/bin/env python3
"""seed_store.py <src dir> ... : copy confirmed seeded changes (patch.diff, demo_test.go, meta.json + eval.txt
written by seed_eval.sh) into /verif/seeded/<name>/ with the confirmation and detection results merged into meta.json."""
import json, os, re, shutil, sys
for src in sys.argv[1:]:
    name = os.path.basename(src.rstrip('/'))
    ev = open(os.path.join(src, 'eval.txt')).read() if os.path.exists(os.path.join(src, 'eval.txt')) else ''
    m = json.load(open(os.path.join(src, 'meta.json')))
    conf = re.search(r'demo_without_patch_exit=(\d+) suite_with_patch_exit=(\d+) demo_with_patch_exit=(\d+)', ev)
    checks = re.findall(r'check (C\d+) quick exit=(\d+): (\d+) violation line\(s\);[ \t]*(.*)', ev)
    ok = bool(conf) and conf.group(1) == '0' and conf.group(2) == '0' and conf.group(3) != '0'
    if not ok:
        print(name, 'NOT CONFIRMED', ev[:200]); continue
    dst = os.path.join('/verif/seeded', name)
    os.makedirs(dst, exist_ok=True)
    shutil.copy(os.path.join(src, 'patch.diff'), dst)
    shutil.copy(os.path.join(src, 'demo_test.go'), dst)
    out = {
        'property': m['property'],
        'what': m.get('what', ''),
        'needs_to_manifest': m.get('needs', ''),
        'demo_dir': m.get('demo_dir', ''),
        'author': 'independent sub-agent given only the property text and a scratch worktree',
        'confirmed_by_me': 'scratch worktree of /repo HEAD: demo passes without the patch (exit 0), existing suite passes with the patch (exit 0), demo fails with the patch (exit %s)' % conf.group(3),
        'ran': 'seed_eval.sh: git worktree add; go test ./<demo_dir>/ (without patch); git apply patch.diff; go build ./... && go test -vet=off -count=1 ./...; go test ./<demo_dir>/ (with patch); then git -C /repo apply patch.diff; ./check <ID> quick; git -C /repo checkout -- .',
        'checks_run': [{'check': c, 'exit': int(e), 'violation_lines': int(n), 'first': d[:300]} for c, e, n, d in checks],
        'detected': any(e == '1' and int(n) > 0 for _, e, n, _ in checks),
    }
    json.dump(out, open(os.path.join(dst, 'meta.json'), 'w'), indent=1)
    print(name, 'stored; detected =', out['detected'], [c for c, e, n, _ in checks if e == '1'])
