//go:build verif

package knx

import (
	"time"

	"github.com/vapourismo/knx-go/knx/cemi"
	"github.com/vapourismo/knx-go/knx/knxnet"
)

func init() {
	verifHarnesses["HarnessC09ConnState"] = HarnessC09ConnState
	verifHarnesses["HarnessC09Epoch"] = HarnessC09Epoch
}

// HarnessC09ConnState: a = {K events}: one real connection-state exchange from an arbitrary
// channel; the environment K times: silent from now on, lets a resend interval pass, delivers a
// status (symbolic) on the heartbeat channel, or closes it.
func HarnessC09ConnState(a []int) {
	K := a[0]
	sock := newVSock()
	conn := vTunnel(sock, false)
	c := nondetU8()
	conn.channel = c
	conn.control = knxnet.HostInfo{Protocol: knxnet.UDP4, Port: knxnet.Port(nondetU16())}
	resend, timeout := int64(conn.config.ResendInterval), int64(conn.config.ResponseTimeout)
	hb := make(chan knxnet.ErrCode)
	closed := false
	var offered []knxnet.ErrCode
	go func() {
		verifDaemon()
		for i := 0; i < K; i++ {
			switch nondetChoice(4) {
			case 0:
				return
			case 1:
				verifSleep(resend)
			case 2:
				st := knxnet.ErrCode(nondetU8())
				offered = append(offered, st) // the offer blocks until it is taken
				hb <- st
			case 3:
				closed = true
				close(hb)
				return
			}
		}
	}()
	t0 := verifNow()
	res, err := conn.requestConnState(hb)
	t1 := verifNow()
	for i, f := range sock.log {
		req, ok := f.(*knxnet.ConnStateReq)
		verifAssert("C09.cs.frame", ok && req.Channel == c && req.Status == 0 && req.Control == conn.control)
		verifAssert("C09.cs.resend_instants", sock.stamps[i] == t0+int64(i)*resend)
	}
	verifAssert("C09.cs.by_timeout", t1-t0 <= timeout)
	if err == nil {
		verifCover("C09.cs.answered")
		verifAssert("C09.cs.result_is_status", len(offered) > 0 && res == offered[len(offered)-1])
	} else {
		verifCover("C09.cs.failed")
		verifAssert("C09.cs.failure_cause", closed || t1-t0 == timeout)
	}
	verifObserve("frames", len(sock.log))
}

// HarnessC09Epoch: a = {heartbeat interval in s (3 < timeout 5 < 7), heartbeat behaviour, reconnect
// behaviour}. The real serve() goroutine against a gateway goroutine.
//
//	heartbeat: 0 answered OK, 1 silence, 2 error status (symbolic, non-zero), 3 answer for a foreign
//	           channel only, 4 disconnect request for the current channel instead, 5 the first one
//	           answered twice and none afterwards
//	reconnect: 0 accepted (new channel symbolic), 1 busy then accepted, 2 refused, 3 silence
func HarnessC09Epoch(a []int) {
	hbSec, hbMode, rcMode := a[0], a[1], a[2]
	sock := newVSock()
	conn := vTunnel(sock, false)
	conn.config.HeartbeatInterval = time.Duration(hbSec)*time.Second + 300*time.Millisecond
	conn.config.ResponseTimeout = 5100 * time.Millisecond // intervals chosen so that few timers expire at the same instant
	c0, s0 := nondetU8(), nondetU8()
	conn.channel, conn.seqNumber = c0, s0
	conn.control = knxnet.HostInfo{Protocol: knxnet.UDP4}
	newCh := nondetU8()
	badStatus := knxnet.ErrCode(nondetU8())
	verifAssume(badStatus != 0 && badStatus != knxnet.ErrNoMoreConnections && badStatus != knxnet.ErrNoMoreUniqueConnections)
	frames := make(chan knxnet.ServicePackable, 64)
	sock.onSend = func(p knxnet.ServicePackable) { frames <- p }
	hbAnswered := false
	busySent := false
	epoch2 := false // the gateway has accepted a reconnect (the new channel may equal the old one)
	go func() {     // gateway
		verifDaemon()
		for f := range frames {
			switch r := f.(type) {
			case *knxnet.ConnStateReq:
				if epoch2 {
					sock.in <- &knxnet.ConnStateRes{Channel: r.Channel, Status: 0}
					continue
				}
				switch hbMode {
				case 0:
					sock.in <- &knxnet.ConnStateRes{Channel: r.Channel, Status: 0}
				case 2:
					sock.in <- &knxnet.ConnStateRes{Channel: r.Channel, Status: badStatus}
				case 3:
					if !hbAnswered {
						sock.in <- &knxnet.ConnStateRes{Channel: r.Channel + 1, Status: 0}
					}
				case 4:
					if !hbAnswered {
						sock.in <- &knxnet.DiscReq{Channel: r.Channel}
					}
				case 5:
					// the first heartbeat is answered twice (a duplicated datagram), then the gateway is gone:
					// the stale duplicate must not make the second heartbeat succeed
					if !hbAnswered {
						sock.in <- &knxnet.ConnStateRes{Channel: r.Channel, Status: 0}
						sock.in <- &knxnet.ConnStateRes{Channel: r.Channel, Status: 0}
					}
				}
				hbAnswered = true
			case *knxnet.ConnReq:
				switch rcMode {
				case 0:
					epoch2 = true
					sock.in <- &knxnet.ConnRes{Channel: newCh, Status: 0}
				case 1:
					if !busySent {
						busySent = true
						sock.in <- &knxnet.ConnRes{Channel: newCh + 1, Status: knxnet.ErrNoMoreConnections}
					} else {
						epoch2 = true
						sock.in <- &knxnet.ConnRes{Channel: newCh, Status: 0}
					}
				case 2:
					sock.in <- &knxnet.ConnRes{Channel: newCh, Status: badStatus}
				}
			case *knxnet.TunnelReq:
				sock.in <- &knxnet.TunnelRes{Channel: r.Channel, SeqNumber: r.SeqNumber, Status: 0}
			}
		}
	}()
	conn.wait.Add(1)
	go conn.serve()
	// the application reads Inbound all the time; one telegram arrives in the first epoch, so the
	// receive counter of that epoch stands at 1 when the connection is lost
	delivered := 0
	go func() {
		verifDaemon()
		for range conn.Inbound() {
			delivered++
		}
	}()
	sock.in <- &knxnet.TunnelReq{Channel: c0, SeqNumber: 0, Payload: c04Msgs[3]}
	hb := int64(conn.config.HeartbeatInterval)
	resend, timeout := int64(conn.config.ResendInterval), int64(conn.config.ResponseTimeout)
	// let the first heartbeat and a possible reconnect play out
	failAt := hb // the heartbeat that fails starts here
	if hbMode == 5 {
		failAt = 2 * hb
	}
	verifSleep(failAt + 2*timeout + 3*resend)
	verifQuiesce()
	// first connection-state request: for the current channel, no later than one heartbeat interval
	verifAssert("C09.epoch.heartbeat_sent", len(sock.log) > 1 && delivered == 1)
	_, isAck := sock.log[0].(*knxnet.TunnelRes)
	first, ok := sock.log[1].(*knxnet.ConnStateReq)
	verifAssert("C09.epoch.first_is_heartbeat", isAck && ok && first.Channel == c0 && first.Control == conn.control)
	verifAssert("C09.epoch.heartbeat_due", sock.stamps[1] <= hb)
	reconnects := 0
	for i, f := range sock.log {
		switch r := f.(type) {
		case *knxnet.ConnReq:
			if reconnects == 0 {
				// the reconnect follows the failed heartbeat at once: at the latest when its response timeout expires
				verifAssert("C09.epoch.reconnect_prompt", sock.stamps[i] <= failAt+timeout)
			}
			reconnects++
		case *knxnet.ConnStateReq:
			if reconnects == 0 {
				verifAssert("C09.epoch.old_channel_before_reconnect", r.Channel == c0)
			} else {
				verifAssert("C09.epoch.new_channel_after_reconnect", r.Channel == newCh)
			}
			if i > 0 {
				if p, ok := sock.log[i-1].(*knxnet.ConnStateReq); ok && hbMode == 1 && reconnects == 0 && p.Channel == r.Channel && sock.stamps[i]-sock.stamps[i-1] < hb {
					verifAssert("C09.epoch.repeat_interval", sock.stamps[i]-sock.stamps[i-1] <= resend)
				}
			}
		case *knxnet.DiscRes:
			verifAssert("C09.epoch.discres_fields", hbMode == 4 && r.Channel == c0 && r.Status == 0)
		}
	}
	failed := hbMode != 0
	alive := !failed || rcMode <= 1
	if !failed {
		verifCover("C09.epoch.healthy")
		verifAssert("C09.epoch.no_reconnect_when_healthy", reconnects == 0)
	} else {
		verifCover("C09.epoch.failed")
		verifAssert("C09.epoch.reconnect_issued", reconnects >= 1)
	}
	wantCh, wantSeq := c0, s0
	if failed && alive {
		wantCh, wantSeq = newCh, 0
	}
	n0 := len(sock.log)
	err := conn.Send(c04Msgs[1])
	if alive {
		verifCover("C09.epoch.alive")
		verifAssert("C09.epoch.send_works", err == nil)
		req, ok := sock.log[n0].(*knxnet.TunnelReq)
		verifAssert("C09.epoch.send_channel_and_counter", ok && req.Channel == wantCh && req.SeqNumber == wantSeq)
		if failed {
			// the receive direction restarts at 0 as well
			sock.in <- &knxnet.TunnelReq{Channel: newCh, SeqNumber: 0, Payload: c04Msgs[2]}
			verifQuiesce()
			verifAssert("C09.epoch.receive_counter_restarts", delivered == 2)
		}
	} else {
		verifCover("C09.epoch.terminated")
		verifAssert("C09.epoch.send_fails_after_termination", err != nil)
		verifQuiesce()
		_, open := <-conn.Inbound()
		verifAssert("C09.epoch.inbound_closed", !open)
	}
	verifObserve("reconnects", reconnects)
}

var _ cemi.Message

func init() {
	verifHarnesses["HarnessC09Parked"] = HarnessC09Parked
	verifHarnesses["HarnessC09SendAcross"] = HarnessC09SendAcross
	verifHarnesses["HarnessC09Traffic"] = HarnessC09Traffic
}

// HarnessC09Parked: telegrams accepted (and acknowledged) while the application is not reading
// survive a reconnect: the tunnel stays open, so nothing that was accepted may be lost.
func HarnessC09Parked(a []int) {
	sock := newVSock()
	conn := vTunnel(sock, false)
	c0, newCh := nondetU8(), nondetU8()
	conn.channel = c0
	c09Gateway(sock, newCh, true)
	conn.wait.Add(1)
	go conn.serve()
	sock.in <- &knxnet.TunnelReq{Channel: c0, SeqNumber: 0, Payload: c04Msgs[0]}
	sock.in <- &knxnet.TunnelReq{Channel: c0, SeqNumber: 1, Payload: c04Msgs[1]}
	sock.in <- &knxnet.DiscReq{Channel: c0}
	verifQuiesce()
	sock.in <- &knxnet.TunnelReq{Channel: newCh, SeqNumber: 0, Payload: c04Msgs[2]}
	verifQuiesce()
	var got []cemi.Message
	go func() {
		verifDaemon()
		for m := range conn.Inbound() {
			got = append(got, m)
		}
	}()
	verifQuiesce()
	verifAssert("C09.parked.none_lost", len(got) == 3)
	for i, m := range got {
		verifAssert("C09.parked.in_order", m == c04Msgs[i])
	}
	acks, reconnects := 0, 0
	for _, f := range sock.log {
		switch f.(type) {
		case *knxnet.TunnelRes:
			acks++
		case *knxnet.ConnReq:
			reconnects++
		}
	}
	verifAssert("C09.parked.acked_and_reconnected", acks == 3 && reconnects == 1)
	verifCover("C09.parked.end")
}

// HarnessC09SendAcross: a Send that waits behind a pending (unacknowledged) Send while the gateway
// drops and re-establishes the connection goes out on the new channel with the restarted counter.
func HarnessC09SendAcross(a []int) {
	sock := newVSock()
	conn := vTunnel(sock, false)
	conn.config.ResponseTimeout = 5100 * time.Millisecond
	conn.config.ResendInterval = 4 * time.Second // few resend ticks: keeps the schedule space small
	c0, s0, newCh := nondetU8(), nondetU8(), nondetU8()
	conn.channel, conn.seqNumber = c0, s0
	c09Gateway(sock, newCh, false) // tunnelling requests stay unacknowledged
	conn.wait.Add(1)
	go conn.serve()
	done := make(chan error, 2)
	go func() { done <- conn.Send(c04Msgs[0]) }()
	verifSleep(int64(100 * time.Millisecond))
	go func() { done <- conn.Send(c04Msgs[1]) }() // waits for the first one
	verifSleep(int64(time.Second))
	sock.in <- &knxnet.DiscReq{Channel: c0} // reconnect while both Sends are pending
	<-done
	<-done
	sawReconnect := false
	for _, f := range sock.log {
		switch r := f.(type) {
		case *knxnet.ConnReq:
			sawReconnect = true
		case *knxnet.TunnelReq:
			if r.Payload == c04Msgs[1] {
				// the waiting Send goes out either still on the old connection (old channel, old
				// counter: the pending one timed out, so the counter did not move) or on the new one
				// (new channel, counter restarted) - never a mixture
				verifAssert("C09.across.consistent_pair", (r.Channel == newCh && r.SeqNumber == 0) || (r.Channel == c0 && r.SeqNumber == s0))
			}
		}
	}
	verifAssert("C09.across.reconnected", sawReconnect)
	// once the reconnect has completed, a fresh Send uses the new channel and counter 0
	if len(a) == 0 || a[0] == 0 {
		verifCover("C09.across.end")
		return
	}
	verifQuiesce()
	n0 := len(sock.log)
	go func() { done <- conn.Send(c04Msgs[2]) }()
	verifSleep(int64(time.Second))
	verifQuiesce()
	req, ok := sock.log[n0].(*knxnet.TunnelReq)
	verifAssert("C09.across.fresh_send_on_new_connection", ok && req.Channel == newCh && (req.SeqNumber == 0 || req.SeqNumber == 1))
	verifCover("C09.across.end")
}

// HarnessC09Traffic: a = {heartbeat interval in s}: inbound frames (for a foreign channel, so they are
// ignored) keep arriving every second; the first connection-state request is still due one
// heartbeat interval after the connection was established, and the next one an interval later.
func HarnessC09Traffic(a []int) {
	sock := newVSock()
	conn := vTunnel(sock, false)
	conn.config.HeartbeatInterval = time.Duration(a[0])*time.Second + 300*time.Millisecond
	c0 := nondetU8()
	conn.channel = c0
	c09Gateway(sock, c0, true)
	conn.wait.Add(1)
	go conn.serve()
	hb := int64(conn.config.HeartbeatInterval)
	go func() {
		verifDaemon()
		for i := 0; i < 2*a[0]+2; i++ {
			verifSleep(int64(time.Second))
			sock.in <- &knxnet.TunnelReq{Channel: c0 + 1, SeqNumber: nondetU8(), Payload: c04Msgs[0]}
		}
	}()
	verifSleep(2*hb + int64(500*time.Millisecond))
	verifQuiesce()
	n := 0
	for i, f := range sock.log {
		if r, ok := f.(*knxnet.ConnStateReq); ok {
			n++
			verifAssert("C09.traffic.heartbeat_due", r.Channel == c0 && sock.stamps[i] <= int64(n)*hb)
		}
	}
	verifAssert("C09.traffic.heartbeats_sent", n == 2)
	close(conn.done)
	verifCover("C09.traffic.end")
}

func init() {
	verifHarnesses["HarnessC09Relay"] = HarnessC09Relay
}

// HarnessC09Relay: a = {reader: 0 immediately, 1 after half a resend interval, 2 after one and a half}:
// a connection-state response is offered to a waiting heartbeat for at most one resend interval.
func HarnessC09Relay(a []int) {
	sock := newVSock()
	conn := vTunnel(sock, false)
	c := nondetU8()
	conn.channel = c
	res := &knxnet.ConnStateRes{Channel: nondetU8(), Status: knxnet.ErrCode(nondetU8())}
	hb := make(chan knxnet.ErrCode)
	err := conn.handleConnStateRes(res, hb)
	verifAssert("C09.relay.channel_check", (err == nil) == (res.Channel == c))
	resend := int64(conn.config.ResendInterval)
	switch a[0] {
	case 1:
		verifSleep(resend / 2)
	case 2:
		verifSleep(resend + resend/2)
	}
	got, have := knxnet.ErrCode(0), false
	select {
	case got = <-hb:
		have = true
	default:
	}
	verifSleep(2 * resend)
	alive := verifQuiesce()
	verifAssert("C09.relay.no_goroutine_left", alive == 0)
	if a[0] <= 1 && res.Channel == c {
		verifCover("C09.relay.delivered")
		verifAssert("C09.relay.delivered", have && got == res.Status)
	} else {
		verifAssert("C09.relay.expired_or_foreign", !have)
	}
}
