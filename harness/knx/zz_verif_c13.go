//go:build verif

package knx

import (
	"time"

	"github.com/vapourismo/knx-go/knx/knxnet"
)

func init() {
	verifHarnesses["HarnessC13"] = HarnessC13
	verifHarnesses["HarnessC13Cap"] = HarnessC13Cap
	verifHarnesses["HarnessC13Quota"] = HarnessC13Quota
	verifHarnesses["HarnessC13QuotaLost"] = HarnessC13QuotaLost
}

// HarnessC13: a = {senders, messages per sender, busy indications, pause in ms, wait time of the
// busy indications in ms}. Real serve goroutine, real Send goroutines; busy indications arrive at
// an arbitrary point of the interleaving. Lower-bound time semantics: goroutines take no time,
// timers fire exactly at their deadline, so every measured gap is the smallest possible one.
func HarnessC13(a []int) {
	nS, per, nBusy, pauseMs, waitMs := a[0], a[1], a[2], a[3], a[4]
	pause := time.Duration(pauseMs) * time.Millisecond
	router, in := newRouterEnv(4, pause)
	returned := 0
	senderIDs := map[int]bool{}
	for i := 0; i < nS; i++ {
		i := i
		go func() {
			senderIDs[verifThreadID()] = true
			for j := 0; j < per; j++ {
				router.Send(rmsg(i*per + j))
				returned++
			}
		}()
	}
	wait := time.Duration(waitMs) * time.Millisecond
	for b := 0; b < nBusy; b++ {
		in <- &knxnet.RoutingBusy{WaitTime: wait, Control: uint16(nondetChoice(2))}
	}
	lost, extra := 0, 0
	if len(a) > 5 && a[5] > 0 {
		// a lost indication after the senders are done: the repetitions are paced like any transmission
		verifSleep(int64(5 * time.Second))
		lost = a[5]
		if lost > nS*per {
			lost = nS * per
		}
		in <- &knxnet.RoutingLost{Count: uint16(a[5])}
		// a fresh Send competes with the repetitions (it may be waiting for its turn while they go
		// out): whatever the order, every transmission keeps the pause to the one before
		extra = 1
		verifAssert("C13.send_next_to_resend_succeeds", router.Send(rmsg(90)) == nil)
	}
	verifSleep(int64(10 * time.Second))
	verifQuiesce()
	_, stamps := routerSent()
	verifAssert("C13.every_send_returns", returned == nS*per)
	// (the fresh Send may win the lock before the lost indication is served; it is then one of the
	// retained messages and may be repeated as well)
	most := nS*per + lost + extra
	if extra == 1 && a[5] > lost {
		most++
	}
	verifAssert("C13.all_transmitted", len(stamps) >= nS*per+lost+extra && len(stamps) <= most)
	for i := 1; i < len(stamps); i++ {
		verifAssert("C13.pacing_gap", stamps[i]-stamps[i-1] >= int64(pause))
	}
	// silent interval: from the instant the server goroutine owns the send lock, nothing is
	// transmitted for min(wait, 50 ms)
	silent := int64(wait)
	if silent > int64(50*time.Millisecond) {
		silent = int64(50 * time.Millisecond)
	}
	// acquisitions of the send lock that are not by a sender goroutine are the server goroutine's:
	// the first nBusy of them are the busy hand-overs (a later one belongs to the lost indication)
	busySeen := 0
	for i := 0; i < verifLockLogField(router, "sendMu"); i++ {
		if senderIDs[verifLockFieldThread(router, "sendMu", i)] {
			continue
		}
		if busySeen == nBusy {
			break
		}
		busySeen++
		T := verifLockFieldTime(router, "sendMu", i)
		for _, s := range stamps {
			verifAssert("C13.silent_interval", s <= T || s >= T+silent)
		}
	}
	verifAssert("C13.every_busy_taken_in", busySeen == nBusy)
	verifCover("C13.end")
}

// HarnessC13Cap: the busy arm alone with a symbolic announced wait time (0..65535 ms), symbolic
// control word and symbolic random part: the lock is held for min(wait, 50 ms) at least and
// 50 ms at most, and sending resumes afterwards.
func HarnessC13Cap(a []int) {
	router, in := newRouterEnv(4, 0)
	waitMs := nondetU16()
	wait := time.Duration(waitMs) * time.Millisecond
	in <- &knxnet.RoutingBusy{WaitTime: wait, Control: nondetU16()}
	verifQuiesce() // the server goroutine owns the lock now
	verifAssert("C13.cap.lock_taken", verifLockLogField(router, "sendMu") == 1)
	t0 := verifNow()
	err := router.Send(rmsg(0))
	t1 := verifNow()
	verifAssert("C13.cap.resumes", err == nil && verifNetWrites() == 1)
	min := int64(wait)
	if min > int64(50*time.Millisecond) {
		min = int64(50 * time.Millisecond)
	}
	verifAssert("C13.cap.at_least_wait", t1-t0 >= min)
	verifAssert("C13.cap.at_most_50ms", t1-t0 <= int64(50*time.Millisecond))
	verifObserve("held_ns", t1-t0)
	verifCover("C13.cap.end")
}

// HarnessC13Quota: a = {senders, messages per sender, busy indications, pause in ms, wait in ms
// (-1: symbolic, all 65536 values)}.
// The clause "after a routing-busy indication has been taken in, at most one further transmission
// per goroutine that was already inside Send may still go out" under the FIFO hand-off policy of
// sync.Mutex (starvation mode: a free mutex goes to the goroutine that has waited longest; the
// engine's verifMutexFIFO). The server goroutine takes the indication in and arrives at the send
// lock in one atomic step; every transmission between that arrival and the instant it owns the
// lock must belong to a Send call entered before the arrival, at most one per goroutine, and from
// then on nothing is transmitted for min(wait, 50 ms).
func HarnessC13Quota(a []int) {
	nS, per, nBusy, pauseMs, waitMs := a[0], a[1], a[2], a[3], a[4]
	pause := time.Duration(pauseMs) * time.Millisecond
	if len(a) < 6 {
		verifMutexFIFO()
	}
	router, in := newRouterEnv(4, pause)
	returned := 0
	senderIDs := map[int]bool{}
	entered := map[int][]int{} // goroutine -> event numbers at which its Send calls were entered
	for i := 0; i < nS; i++ {
		i := i
		go func() {
			id := verifThreadID()
			senderIDs[id] = true
			for j := 0; j < per; j++ {
				entered[id] = append(entered[id], verifSeq())
				router.Send(rmsg(i*per + j))
				returned++
			}
		}()
	}
	wait := time.Duration(waitMs) * time.Millisecond
	if waitMs < 0 {
		// the announced wait time is symbolic: every 16-bit value
		wait = time.Duration(nondetU16()) * time.Millisecond
	}
	for b := 0; b < nBusy; b++ {
		in <- &knxnet.RoutingBusy{WaitTime: wait, Control: 1}
	}
	verifSleep(int64(10 * time.Second))
	verifQuiesce()
	_, stamps := routerSent()
	verifAssert("C13.quota.every_send_returns", returned == nS*per)
	verifAssert("C13.quota.all_transmitted", len(stamps) == nS*per)
	silent := int64(wait)
	if silent > int64(50*time.Millisecond) {
		silent = int64(50 * time.Millisecond)
	}
	busySeen := 0
	for i := 0; i < verifLockLogField(router, "sendMu"); i++ {
		if senderIDs[verifLockFieldThread(router, "sendMu", i)] {
			continue
		}
		busySeen++
		arrive := verifLockFieldArriveSeq(router, "sendMu", i)
		owned := verifLockFieldSeq(router, "sendMu", i)
		T := verifLockFieldTime(router, "sendMu", i)
		perThread := map[int]int{}
		for w := 0; w < verifNetWrites(); w++ {
			ws, wt := verifNetWriteSeq(w), verifNetWriteThread(w)
			if ws > owned {
				// after the hand-over: silence for the announced time
				verifAssert("C13.quota.silent_interval", stamps[w] >= T+silent)
				continue
			}
			if ws < arrive {
				continue
			}
			// between "taken in" and "server owns the lock"
			verifCover("C13.quota.transmission_after_busy")
			perThread[wt]++
			verifAssert("C13.quota.one_per_goroutine", perThread[wt] <= 1)
			// the transmitting Send call was entered before the indication was taken in: it is the
			// latest call of that goroutine entered before the write
			last := -1
			for _, en := range entered[wt] {
				if en < ws {
					last = en
				}
			}
			verifAssert("C13.quota.already_inside_send", last >= 0 && last < arrive)
		}
	}
	verifAssert("C13.quota.every_busy_taken_in", busySeen == nBusy)
	verifCover("C13.quota.end")
}

// HarnessC13QuotaLost: a = {messages M sent beforehand, lost count L, pause in ms, wait in ms}: the
// goroutine that repeats lost telegrams is a sender like any other: when a busy indication is
// taken in while it is at work, at most one further repetition goes out before the server
// goroutine owns the send lock, and then nothing for min(wait, 50 ms). FIFO hand-off of the lock
// as in HarnessC13Quota; the busy indication meets the repetitions at every point of the interleaving.
func HarnessC13QuotaLost(a []int) {
	M, L, pauseMs, waitMs := a[0], a[1], a[2], a[3]
	verifMutexFIFO()
	router, in := newRouterEnv(4, time.Duration(pauseMs)*time.Millisecond)
	// calibration: a busy indication announcing no wait at all on the idle client - whoever takes the
	// send lock for it is the goroutine that serves indications
	in <- &knxnet.RoutingBusy{WaitTime: 0, Control: 1}
	verifSleep(int64(time.Second))
	verifQuiesce()
	verifAssert("C13.quotalost.calibration", verifLockLogField(router, "sendMu") == 1)
	server := verifLockFieldThread(router, "sendMu", 0)
	for i := 0; i < M; i++ {
		verifAssert("C13.quotalost.send", router.Send(rmsg(i)) == nil)
	}
	verifSleep(int64(time.Second))
	verifQuiesce()
	first := verifLockLogField(router, "sendMu")
	wait := time.Duration(waitMs) * time.Millisecond
	in <- &knxnet.RoutingLost{Count: uint16(L)}
	in <- &knxnet.RoutingBusy{WaitTime: wait, Control: 1}
	verifSleep(int64(10 * time.Second))
	verifQuiesce()
	_, stamps := routerSent()
	resent := L
	if resent > M {
		resent = M
	}
	verifAssert("C13.quotalost.all_transmitted", len(stamps) == M+resent)
	silent := int64(wait)
	if silent > int64(50*time.Millisecond) {
		silent = int64(50 * time.Millisecond)
	}
	for w := 0; w < verifNetWrites(); w++ {
		if verifNetWriteThread(w) == server {
			verifUnsupported("the goroutine that serves indications also transmits: the busy hand-over cannot be told apart")
		}
	}
	// the busy indication was the last one handed in: the hand-over is the last acquisition of the
	// send lock by the serving goroutine
	seen := false
	for i := verifLockLogField(router, "sendMu") - 1; i >= first; i-- {
		if verifLockFieldThread(router, "sendMu", i) != server {
			continue
		}
		seen = true
		arrive, owned, T := verifLockFieldArriveSeq(router, "sendMu", i), verifLockFieldSeq(router, "sendMu", i), verifLockFieldTime(router, "sendMu", i)
		perThread := map[int]int{}
		for w := 0; w < verifNetWrites(); w++ {
			ws := verifNetWriteSeq(w)
			if ws > owned {
				verifAssert("C13.quotalost.silent_interval", stamps[w] >= T+silent)
			} else if ws > arrive {
				verifCover("C13.quotalost.repetition_after_busy")
				perThread[verifNetWriteThread(w)]++
				verifAssert("C13.quotalost.one_per_goroutine", perThread[verifNetWriteThread(w)] <= 1)
			}
		}
		break
	}
	verifAssert("C13.quotalost.busy_taken_in", seen)
	verifCover("C13.quotalost.end")
}
