//go:build verif

package cemi

func init() {
	verifHarnesses["HarnessC11Helpers"] = HarnessC11Helpers
}

// HarnessC11Helpers: flag constructors and accessors over their whole 8-bit domains.
func HarnessC11Helpers(a []int) {
	h := nondetU8()
	c2 := Control2Hops(h)
	want := h
	if want > 7 {
		want = 7
	}
	verifAssert("C11.hops.ctor_layout", uint8(c2) == want<<4)
	verifObserve("hops", c2.Hops())
	verifAssert("C11.hops.accessor", c2.Hops() == want)

	any := ControlField2(nondetU8())
	verifAssert("C11.hops.accessor_any", any.Hops() == (uint8(any)>>4)&7)
	verifAssert("C11.isgroup", any.IsGroupAddr() == (uint8(any)>>7 == 1))

	p := Priority(nondetU8())
	verifAssert("C11.prio", uint8(Control1Prio(p)) == (uint8(p)&3)<<2)

	ap := APCI(nondetU8())
	verifAssert("C11.groupcmd", ap.IsGroupCommand() == (ap < 3))
	verifCover("C11.helpers.end")
}
