// Package term implements hash-consed bit-vector / Bool / IEEE-FP terms with
// constant folding, a small unsigned-range simplifier, a concrete evaluator
// (used to follow solver models and to build replay vectors) and an SMT-LIB2
// printer.
package term

import (
	"fmt"
	"math"
	"math/bits"
	"strconv"
	"strings"
)

type Kind uint8

const (
	BV Kind = iota
	Bool
	FP
)

type Sort struct {
	K Kind
	W int // BV width (1..64); FP: 32 or 64
}

func (s Sort) SMT() string {
	switch s.K {
	case Bool:
		return "Bool"
	case BV:
		return fmt.Sprintf("(_ BitVec %d)", s.W)
	default:
		if s.W == 32 {
			return "(_ FloatingPoint 8 24)"
		}
		return "(_ FloatingPoint 11 53)"
	}
}

type Op uint8

const (
	OpConst Op = iota
	OpVar
	OpAdd
	OpSub
	OpMul
	OpUDiv
	OpURem
	OpSDiv
	OpSRem
	OpAnd
	OpOr
	OpXor
	OpNot
	OpNeg
	OpShl
	OpLShr
	OpAShr
	OpConcat
	OpExtract
	OpZExt
	OpSExt
	OpEq
	OpULt
	OpULe
	OpSLt
	OpSLe
	OpBAnd
	OpBOr
	OpBNot
	OpIte
	OpFAdd
	OpFSub
	OpFMul
	OpFDiv
	OpFNeg
	OpFEq
	OpFLt
	OpFLe
	OpFIsNaN
	OpFFromBits
	OpFFromSInt
	OpFFromUInt
	OpFToSInt // RTZ, result width Sort.W; unspecified outside range (callers guard with ite)
	OpFConv
	OpFAbs
	OpFRound // round to integral; Lo selects the mode: 0 RNE, 1 RNA, 2 RTP (ceil), 3 RTN (floor), 4 RTZ (trunc)
)

var opName = map[Op]string{
	OpAdd: "bvadd", OpSub: "bvsub", OpMul: "bvmul", OpUDiv: "bvudiv", OpURem: "bvurem",
	OpSDiv: "bvsdiv", OpSRem: "bvsrem", OpAnd: "bvand", OpOr: "bvor", OpXor: "bvxor",
	OpNot: "bvnot", OpNeg: "bvneg", OpShl: "bvshl", OpLShr: "bvlshr", OpAShr: "bvashr",
	OpConcat: "concat", OpEq: "=", OpULt: "bvult", OpULe: "bvule", OpSLt: "bvslt", OpSLe: "bvsle",
	OpBAnd: "and", OpBOr: "or", OpBNot: "not", OpIte: "ite",
	OpFAdd: "fp.add RNE", OpFSub: "fp.sub RNE", OpFMul: "fp.mul RNE", OpFDiv: "fp.div RNE",
	OpFNeg: "fp.neg", OpFEq: "fp.eq", OpFLt: "fp.lt", OpFLe: "fp.leq", OpFIsNaN: "fp.isNaN",
}

type T struct {
	Op       Op
	Sort     Sort
	Args     []*T
	Val      uint64 // constants: value (BV), 0/1 (Bool), IEEE bits (FP)
	Name     string // variables
	Hi, Lo   int    // extract
	ID       int
	HasFP    bool
	lo, hi   uint64 // unsigned range for BV terms
	slo, shi int64  // signed range for BV terms
}

// SRange returns the signed interval known for a BV term.
func (t *T) SRange() (int64, int64) { return t.slo, t.shi }

func (t *T) IsConst() bool { return t.Op == OpConst }
func (t *T) IsTrue() bool  { return t.Op == OpConst && t.Sort.K == Bool && t.Val == 1 }
func (t *T) IsFalse() bool { return t.Op == OpConst && t.Sort.K == Bool && t.Val == 0 }

// Range returns the unsigned interval known for a BV term.
func (t *T) Range() (uint64, uint64) { return t.lo, t.hi }

type Ctx struct {
	kbuf  []byte
	bvc   map[bvKey]*T
	tab   map[string]*T
	next  int
	True  *T
	False *T
	Vars  map[string]*T
}

func NewCtx() *Ctx {
	c := &Ctx{tab: map[string]*T{}, Vars: map[string]*T{}, bvc: map[bvKey]*T{}}
	c.True = c.mk(&T{Op: OpConst, Sort: Sort{Bool, 0}, Val: 1})
	c.False = c.mk(&T{Op: OpConst, Sort: Sort{Bool, 0}, Val: 0})
	return c
}

func mask(w int) uint64 {
	if w >= 64 {
		return ^uint64(0)
	}
	return (uint64(1) << uint(w)) - 1
}

func (c *Ctx) key(t *T) string {
	b := c.kbuf[:0]
	b = strconv.AppendInt(b, int64(t.Op), 10)
	b = append(b, '|')
	b = strconv.AppendInt(b, int64(t.Sort.K), 10)
	b = append(b, '.')
	b = strconv.AppendInt(b, int64(t.Sort.W), 10)
	b = append(b, '|')
	b = strconv.AppendUint(b, t.Val, 16)
	b = append(b, '|')
	b = append(b, t.Name...)
	b = append(b, '|')
	b = strconv.AppendInt(b, int64(t.Hi), 10)
	b = append(b, '.')
	b = strconv.AppendInt(b, int64(t.Lo), 10)
	for _, a := range t.Args {
		b = append(b, '|')
		b = strconv.AppendInt(b, int64(a.ID), 10)
	}
	c.kbuf = b
	return string(b)
}

type bvKey struct {
	w int
	v uint64
}

func (c *Ctx) mk(t *T) *T {
	k := c.key(t)
	if o, ok := c.tab[k]; ok {
		return o
	}
	c.next++
	t.ID = c.next
	for _, a := range t.Args {
		if a.HasFP {
			t.HasFP = true
		}
	}
	if t.Sort.K == FP {
		t.HasFP = true
	}
	if t.Sort.K == BV {
		t.lo, t.hi = c.rng(t)
		t.slo, t.shi = c.srng(t)
	}
	c.tab[k] = t
	return t
}

func (c *Ctx) Size() int { return len(c.tab) }

// ---- constructors -------------------------------------------------------

func (c *Ctx) BVConst(w int, v uint64) *T {
	k := bvKey{w, v & mask(w)}
	if t, ok := c.bvc[k]; ok {
		return t
	}
	t := c.mk(&T{Op: OpConst, Sort: Sort{BV, w}, Val: k.v})
	c.bvc[k] = t
	return t
}
func (c *Ctx) BoolConst(b bool) *T {
	if b {
		return c.True
	}
	return c.False
}
func (c *Ctx) FPConst(w int, bitsv uint64) *T {
	return c.mk(&T{Op: OpConst, Sort: Sort{FP, w}, Val: bitsv & mask(w)})
}
func (c *Ctx) F32(f float32) *T { return c.FPConst(32, uint64(math.Float32bits(f))) }
func (c *Ctx) F64(f float64) *T { return c.FPConst(64, math.Float64bits(f)) }

func (c *Ctx) Var(name string, s Sort) *T {
	t := c.mk(&T{Op: OpVar, Sort: s, Name: name})
	c.Vars[name] = t
	return t
}

func sext(v uint64, w int) int64 {
	if w >= 64 {
		return int64(v)
	}
	sh := uint(64 - w)
	return int64(v<<sh) >> sh
}

func (c *Ctx) rng(t *T) (uint64, uint64) {
	m := mask(t.Sort.W)
	switch t.Op {
	case OpConst:
		return t.Val, t.Val
	case OpZExt:
		return t.Args[0].lo, t.Args[0].hi
	case OpAnd:
		h := t.Args[0].hi
		if t.Args[1].hi < h {
			h = t.Args[1].hi
		}
		return 0, h
	case OpOr, OpXor:
		h := t.Args[0].hi | t.Args[1].hi
		// smallest all-ones >= h
		n := bits.Len64(h)
		return 0, mask(n) & m
	case OpLShr:
		if t.Args[1].IsConst() {
			s := t.Args[1].Val
			if s >= 64 {
				return 0, 0
			}
			return t.Args[0].lo >> s, t.Args[0].hi >> s
		}
		return 0, t.Args[0].hi
	case OpShl:
		if t.Args[1].IsConst() {
			s := t.Args[1].Val
			if s < 64 && bits.Len64(t.Args[0].hi)+int(s) <= t.Sort.W {
				return t.Args[0].lo << s, t.Args[0].hi << s
			}
		} else if s := t.Args[1].hi; s < 64 && bits.Len64(t.Args[0].hi)+int(s) <= t.Sort.W {
			return 0, t.Args[0].hi << s
		}
	case OpURem:
		if t.Args[1].lo > 0 {
			return 0, t.Args[1].hi - 1
		}
	case OpUDiv:
		if t.Args[1].lo > 0 {
			return t.Args[0].lo / t.Args[1].hi, t.Args[0].hi / t.Args[1].lo
		}
	case OpAdd:
		a, b := t.Args[0], t.Args[1]
		s, carry := bits.Add64(a.hi, b.hi, 0)
		if carry == 0 && s <= m {
			return a.lo + b.lo, s
		}
	case OpSub:
		a, b := t.Args[0], t.Args[1]
		if a.lo >= b.hi {
			return a.lo - b.hi, a.hi - b.lo
		}
	case OpMul:
		a, b := t.Args[0], t.Args[1]
		h, l := bits.Mul64(a.hi, b.hi)
		if h == 0 && l <= m {
			return a.lo * b.lo, l
		}
	case OpIte:
		l, h := t.Args[1].lo, t.Args[1].hi
		if t.Args[2].lo < l {
			l = t.Args[2].lo
		}
		if t.Args[2].hi > h {
			h = t.Args[2].hi
		}
		return l, h
	case OpExtract:
		if t.Lo == 0 && t.Args[0].hi <= m {
			return t.Args[0].lo, t.Args[0].hi
		}
	case OpConcat:
		if t.Args[0].hi == 0 {
			return t.Args[1].lo, t.Args[1].hi
		}
	}
	return 0, m
}

func sfull(w int) (int64, int64) {
	if w >= 64 {
		return math.MinInt64, math.MaxInt64
	}
	return -(int64(1) << uint(w-1)), (int64(1) << uint(w-1)) - 1
}

func (c *Ctx) srng(t *T) (int64, int64) {
	w := t.Sort.W
	flo, fhi := sfull(w)
	fits := func(lo, hi int64) (int64, int64) {
		if lo >= flo && hi <= fhi && lo <= hi {
			return lo, hi
		}
		return flo, fhi
	}
	// non-negative in both interpretations
	if w <= 64 && t.hi <= uint64(fhi) {
		return int64(t.lo), int64(t.hi)
	}
	small := func(x *T) bool { return x.slo > -(1<<61) && x.shi < (1<<61) }
	switch t.Op {
	case OpConst:
		v := sext(t.Val, w)
		return v, v
	case OpSExt:
		return t.Args[0].slo, t.Args[0].shi
	case OpAdd:
		a, b := t.Args[0], t.Args[1]
		if small(a) && small(b) {
			return fits(a.slo+b.slo, a.shi+b.shi)
		}
	case OpSub:
		a, b := t.Args[0], t.Args[1]
		if small(a) && small(b) {
			return fits(a.slo-b.shi, a.shi-b.slo)
		}
	case OpNeg:
		a := t.Args[0]
		if small(a) {
			return fits(-a.shi, -a.slo)
		}
	case OpIte:
		l, h := t.Args[1].slo, t.Args[1].shi
		if t.Args[2].slo < l {
			l = t.Args[2].slo
		}
		if t.Args[2].shi > h {
			h = t.Args[2].shi
		}
		return l, h
	case OpSDiv:
		a, b := t.Args[0], t.Args[1]
		if b.IsConst() && sext(b.Val, w) > 0 && small(a) {
			d := sext(b.Val, w)
			return fits(a.slo/d, a.shi/d)
		}
	case OpAShr:
		a, b := t.Args[0], t.Args[1]
		if b.IsConst() && b.Val < 64 {
			return a.slo >> b.Val, a.shi >> b.Val
		}
	case OpMul:
		a, b := t.Args[0], t.Args[1]
		if b.IsConst() && small(a) {
			k := sext(b.Val, w)
			if k > -(1<<20) && k < (1<<20) && a.slo > -(1<<40) && a.shi < (1<<40) {
				x, y := a.slo*k, a.shi*k
				if x > y {
					x, y = y, x
				}
				return fits(x, y)
			}
		}
	}
	return flo, fhi
}

func (c *Ctx) bin(op Op, a, b *T) *T {
	if a.Sort != b.Sort {
		panic(fmt.Sprintf("term: sort mismatch in %s: %v vs %v", opName[op], a.Sort, b.Sort))
	}
	return c.mk(&T{Op: op, Sort: a.Sort, Args: []*T{a, b}})
}

func evalBin(op Op, w int, x, y uint64) uint64 {
	m := mask(w)
	switch op {
	case OpAdd:
		return (x + y) & m
	case OpSub:
		return (x - y) & m
	case OpMul:
		return (x * y) & m
	case OpUDiv:
		if y == 0 {
			return m
		}
		return x / y
	case OpURem:
		if y == 0 {
			return x
		}
		return x % y
	case OpSDiv:
		sx, sy := sext(x, w), sext(y, w)
		if sy == 0 {
			if sx < 0 {
				return 1
			}
			return m
		}
		if sy == -1 {
			return uint64(-sx) & m
		}
		return uint64(sx/sy) & m
	case OpSRem:
		sx, sy := sext(x, w), sext(y, w)
		if sy == 0 {
			return x
		}
		if sy == -1 {
			return 0
		}
		return uint64(sx%sy) & m
	case OpAnd:
		return x & y
	case OpOr:
		return x | y
	case OpXor:
		return x ^ y
	case OpShl:
		if y >= uint64(w) {
			return 0
		}
		return (x << y) & m
	case OpLShr:
		if y >= uint64(w) {
			return 0
		}
		return x >> y
	case OpAShr:
		sx := sext(x, w)
		if y >= uint64(w) {
			y = uint64(w - 1)
		}
		return uint64(sx>>y) & m
	}
	panic("evalBin")
}

func (c *Ctx) Bin(op Op, a, b *T) *T {
	w := a.Sort.W
	if a.IsConst() && b.IsConst() {
		return c.BVConst(w, evalBin(op, w, a.Val, b.Val))
	}
	m := mask(w)
	switch op {
	case OpAdd:
		if a.IsConst() && a.Val == 0 {
			return b
		}
		if b.IsConst() && b.Val == 0 {
			return a
		}
		if a.IsConst() { // canonical: constant on the right
			a, b = b, a
		}
		// (x + c1) + c2
		if b.IsConst() && a.Op == OpAdd && a.Args[1].IsConst() {
			return c.Bin(OpAdd, a.Args[0], c.BVConst(w, a.Args[1].Val+b.Val))
		}
	case OpSub:
		if b.IsConst() {
			return c.Bin(OpAdd, a, c.BVConst(w, -b.Val))
		}
		if a == b {
			return c.BVConst(w, 0)
		}
	case OpMul:
		if a.IsConst() {
			a, b = b, a
		}
		if b.IsConst() {
			if b.Val == 0 {
				return b
			}
			if b.Val == 1 {
				return a
			}
		}
	case OpAnd:
		if a.IsConst() {
			a, b = b, a
		}
		if b.IsConst() {
			if b.Val == 0 {
				return b
			}
			if b.Val == m {
				return a
			}
			// mask covers the whole known range of a
			if a.hi <= b.Val && b.Val&(b.Val+1) == 0 {
				return a
			}
			if a.Op == OpAnd && a.Args[1].IsConst() {
				return c.Bin(OpAnd, a.Args[0], c.BVConst(w, a.Args[1].Val&b.Val))
			}
			// (x | k) & m  ->  (x & m) | (k & m)
			if a.Op == OpOr && a.Args[1].IsConst() {
				return c.Bin(OpOr, c.Bin(OpAnd, a.Args[0], b), c.BVConst(w, a.Args[1].Val&b.Val))
			}
		}
		if a == b {
			return a
		}
	case OpOr:
		if a.IsConst() {
			a, b = b, a
		}
		if b.IsConst() {
			if b.Val == 0 {
				return a
			}
			if b.Val == m {
				return b
			}
		}
		if a == b {
			return a
		}
	case OpXor:
		if a.IsConst() {
			a, b = b, a
		}
		if b.IsConst() && b.Val == 0 {
			return a
		}
		if a == b {
			return c.BVConst(w, 0)
		}
	case OpShl, OpLShr, OpAShr:
		if b.IsConst() && b.Val == 0 {
			return a
		}
		if a.IsConst() && a.Val == 0 {
			return a
		}
		if b.IsConst() && b.Val >= uint64(w) && op != OpAShr {
			return c.BVConst(w, 0)
		}
		if op == OpLShr && b.IsConst() && b.Val < 64 && a.hi>>b.Val == 0 {
			return c.BVConst(w, 0)
		}
		// (x & k) >> n -> (x >> n) & (k >> n);  (x | k) >> n -> (x >> n) | (k >> n)
		if op == OpLShr && b.IsConst() && b.Val < 64 && (a.Op == OpAnd || a.Op == OpOr) && a.Args[1].IsConst() {
			return c.Bin(a.Op, c.Bin(OpLShr, a.Args[0], b), c.BVConst(w, a.Args[1].Val>>b.Val))
		}
	case OpUDiv:
		if b.IsConst() && b.Val == 1 {
			return a
		}
	case OpURem:
		if b.IsConst() && b.Val != 0 && a.hi < b.Val {
			return a
		}
	}
	return c.bin(op, a, b)
}

func (c *Ctx) Not(a *T) *T {
	if a.IsConst() {
		return c.BVConst(a.Sort.W, ^a.Val)
	}
	if a.Op == OpNot {
		return a.Args[0]
	}
	return c.mk(&T{Op: OpNot, Sort: a.Sort, Args: []*T{a}})
}

func (c *Ctx) Neg(a *T) *T {
	if a.IsConst() {
		return c.BVConst(a.Sort.W, -a.Val)
	}
	return c.mk(&T{Op: OpNeg, Sort: a.Sort, Args: []*T{a}})
}

func (c *Ctx) Extract(a *T, hi, lo int) *T {
	w := hi - lo + 1
	if lo == 0 && w == a.Sort.W {
		return a
	}
	if a.IsConst() {
		return c.BVConst(w, a.Val>>uint(lo))
	}
	switch a.Op {
	case OpZExt:
		in := a.Args[0]
		if hi < in.Sort.W {
			return c.Extract(in, hi, lo)
		}
		if lo >= in.Sort.W {
			return c.BVConst(w, 0)
		}
		if lo == 0 {
			return c.ZExt(in, w)
		}
	case OpSExt:
		in := a.Args[0]
		if hi < in.Sort.W {
			return c.Extract(in, hi, lo)
		}
		if lo == 0 {
			return c.SExt(in, w)
		}
	case OpExtract:
		return c.Extract(a.Args[0], hi+a.Lo, lo+a.Lo)
	case OpConcat:
		lw := a.Args[1].Sort.W
		if hi < lw {
			return c.Extract(a.Args[1], hi, lo)
		}
		if lo >= lw {
			return c.Extract(a.Args[0], hi-lw, lo-lw)
		}
	case OpAnd, OpOr, OpXor:
		if lo == 0 || a.Args[1].IsConst() {
			return c.Bin(a.Op, c.Extract(a.Args[0], hi, lo), c.Extract(a.Args[1], hi, lo))
		}
	case OpAdd, OpSub, OpMul:
		if lo == 0 {
			return c.Bin(a.Op, c.Extract(a.Args[0], hi, 0), c.Extract(a.Args[1], hi, 0))
		}
	case OpShl:
		// extract low bits of (x << k)
		if lo == 0 && a.Args[1].IsConst() {
			k := a.Args[1].Val
			if k >= uint64(w) {
				return c.BVConst(w, 0)
			}
			return c.Bin(OpShl, c.Extract(a.Args[0], hi, 0), c.BVConst(w, k))
		}
	case OpLShr:
		if a.Args[1].IsConst() {
			k := int(a.Args[1].Val)
			if k < a.Sort.W && hi+k < a.Sort.W {
				return c.Extract(a.Args[0], hi+k, lo+k)
			}
		}
	case OpIte:
		if a.Args[1].IsConst() && a.Args[2].IsConst() {
			return c.Ite(a.Args[0], c.Extract(a.Args[1], hi, lo), c.Extract(a.Args[2], hi, lo))
		}
	}
	return c.mk(&T{Op: OpExtract, Sort: Sort{BV, w}, Args: []*T{a}, Hi: hi, Lo: lo})
}

func (c *Ctx) ZExt(a *T, w int) *T {
	if w == a.Sort.W {
		return a
	}
	if w < a.Sort.W {
		return c.Extract(a, w-1, 0)
	}
	if a.IsConst() {
		return c.BVConst(w, a.Val)
	}
	if a.Op == OpZExt {
		return c.ZExt(a.Args[0], w)
	}
	return c.mk(&T{Op: OpZExt, Sort: Sort{BV, w}, Args: []*T{a}})
}

func (c *Ctx) SExt(a *T, w int) *T {
	if w == a.Sort.W {
		return a
	}
	if w < a.Sort.W {
		return c.Extract(a, w-1, 0)
	}
	if a.IsConst() {
		return c.BVConst(w, uint64(sext(a.Val, a.Sort.W)))
	}
	// sign bit known zero -> zext
	if a.hi < uint64(1)<<uint(a.Sort.W-1) {
		return c.ZExt(a, w)
	}
	return c.mk(&T{Op: OpSExt, Sort: Sort{BV, w}, Args: []*T{a}})
}

func (c *Ctx) Concat(hi, lo *T) *T {
	w := hi.Sort.W + lo.Sort.W
	if hi.IsConst() && lo.IsConst() {
		return c.BVConst(w, hi.Val<<uint(lo.Sort.W)|lo.Val)
	}
	if hi.IsConst() && hi.Val == 0 {
		return c.ZExt(lo, w)
	}
	return c.mk(&T{Op: OpConcat, Sort: Sort{BV, w}, Args: []*T{hi, lo}})
}

// ---- Bool ----------------------------------------------------------------

func (c *Ctx) BNot(a *T) *T {
	if a.IsConst() {
		return c.BoolConst(a.Val == 0)
	}
	if a.Op == OpBNot {
		return a.Args[0]
	}
	return c.mk(&T{Op: OpBNot, Sort: Sort{Bool, 0}, Args: []*T{a}})
}

func (c *Ctx) BAnd(a, b *T) *T {
	if a.IsFalse() || b.IsFalse() {
		return c.False
	}
	if a.IsTrue() {
		return b
	}
	if b.IsTrue() {
		return a
	}
	if a == b {
		return a
	}
	return c.mk(&T{Op: OpBAnd, Sort: Sort{Bool, 0}, Args: []*T{a, b}})
}

func (c *Ctx) BOr(a, b *T) *T {
	if a.IsTrue() || b.IsTrue() {
		return c.True
	}
	if a.IsFalse() {
		return b
	}
	if b.IsFalse() {
		return a
	}
	if a == b {
		return a
	}
	return c.mk(&T{Op: OpBOr, Sort: Sort{Bool, 0}, Args: []*T{a, b}})
}

func (c *Ctx) Ite(cond, a, b *T) *T {
	if cond.IsTrue() {
		return a
	}
	if cond.IsFalse() {
		return b
	}
	if a == b {
		return a
	}
	if a.Sort != b.Sort {
		panic("term: ite sort mismatch")
	}
	if a.Sort.K == Bool {
		if a.IsTrue() && b.IsFalse() {
			return cond
		}
		if a.IsFalse() && b.IsTrue() {
			return c.BNot(cond)
		}
	}
	return c.mk(&T{Op: OpIte, Sort: a.Sort, Args: []*T{cond, a, b}})
}

func (c *Ctx) Eq(a, b *T) *T {
	if a.Sort != b.Sort {
		panic(fmt.Sprintf("term: eq sort mismatch %v %v", a.Sort, b.Sort))
	}
	if a == b && a.Sort.K != FP {
		return c.True
	}
	if a.IsConst() && b.IsConst() {
		return c.BoolConst(a.Val == b.Val)
	}
	if a.Sort.K == BV {
		if a.hi < b.lo || b.hi < a.lo {
			return c.False
		}
		if a.IsConst() {
			a, b = b, a
		}
		if b.IsConst() {
			// zext(x) == c  ->  x == c (if fits)
			if a.Op == OpZExt {
				in := a.Args[0]
				if b.Val > mask(in.Sort.W) {
					return c.False
				}
				return c.Eq(in, c.BVConst(in.Sort.W, b.Val))
			}
			if a.Op == OpIte && a.Args[1].IsConst() && a.Args[2].IsConst() {
				return c.Ite(a.Args[0], c.BoolConst(a.Args[1].Val == b.Val), c.BoolConst(a.Args[2].Val == b.Val))
			}
		}
		if a.Op == OpZExt && b.Op == OpZExt && a.Args[0].Sort == b.Args[0].Sort {
			return c.Eq(a.Args[0], b.Args[0])
		}
	}
	if a.Sort.K == Bool {
		if b.IsConst() {
			if b.Val == 1 {
				return a
			}
			return c.BNot(a)
		}
		if a.IsConst() {
			if a.Val == 1 {
				return b
			}
			return c.BNot(b)
		}
	}
	if a.ID > b.ID {
		a, b = b, a
	}
	return c.mk(&T{Op: OpEq, Sort: Sort{Bool, 0}, Args: []*T{a, b}})
}

func (c *Ctx) Cmp(op Op, a, b *T) *T {
	w := a.Sort.W
	if a.IsConst() && b.IsConst() {
		var r bool
		switch op {
		case OpULt:
			r = a.Val < b.Val
		case OpULe:
			r = a.Val <= b.Val
		case OpSLt:
			r = sext(a.Val, w) < sext(b.Val, w)
		case OpSLe:
			r = sext(a.Val, w) <= sext(b.Val, w)
		}
		return c.BoolConst(r)
	}
	half := uint64(1) << uint(w-1)
	switch op {
	case OpULt:
		if a.hi < b.lo {
			return c.True
		}
		if a.lo >= b.hi {
			return c.False
		}
	case OpULe:
		if a.hi <= b.lo {
			return c.True
		}
		if a.lo > b.hi {
			return c.False
		}
	case OpSLt:
		if a.hi < half && b.hi < half {
			return c.Cmp(OpULt, a, b)
		}
	case OpSLe:
		if a.hi < half && b.hi < half {
			return c.Cmp(OpULe, a, b)
		}
	}
	if a == b {
		return c.BoolConst(op == OpULe || op == OpSLe)
	}
	// zext(x) < zext(y)
	if (op == OpULt || op == OpULe) && a.Op == OpZExt && b.Op == OpZExt && a.Args[0].Sort == b.Args[0].Sort {
		return c.Cmp(op, a.Args[0], b.Args[0])
	}
	if (op == OpULt || op == OpULe) && a.Op == OpZExt && b.IsConst() && b.Val <= mask(a.Args[0].Sort.W) {
		return c.Cmp(op, a.Args[0], c.BVConst(a.Args[0].Sort.W, b.Val))
	}
	if (op == OpULt || op == OpULe) && b.Op == OpZExt && a.IsConst() && a.Val <= mask(b.Args[0].Sort.W) {
		return c.Cmp(op, c.BVConst(b.Args[0].Sort.W, a.Val), b.Args[0])
	}
	return c.mk(&T{Op: op, Sort: Sort{Bool, 0}, Args: []*T{a, b}})
}

// ---- FP -----------------------------------------------------------------

func fval(w int, v uint64) float64 {
	if w == 32 {
		return float64(math.Float32frombits(uint32(v)))
	}
	return math.Float64frombits(v)
}
func fbits(w int, f float64) uint64 {
	if w == 32 {
		return uint64(math.Float32bits(float32(f)))
	}
	return math.Float64bits(f)
}

func evalFBin(op Op, w int, x, y uint64) uint64 {
	if w == 32 {
		a, b := math.Float32frombits(uint32(x)), math.Float32frombits(uint32(y))
		var r float32
		switch op {
		case OpFAdd:
			r = a + b
		case OpFSub:
			r = a - b
		case OpFMul:
			r = a * b
		case OpFDiv:
			r = a / b
		}
		return uint64(math.Float32bits(r))
	}
	a, b := math.Float64frombits(x), math.Float64frombits(y)
	var r float64
	switch op {
	case OpFAdd:
		r = a + b
	case OpFSub:
		r = a - b
	case OpFMul:
		r = a * b
	case OpFDiv:
		r = a / b
	}
	return math.Float64bits(r)
}

func (c *Ctx) FBin(op Op, a, b *T) *T {
	if a.IsConst() && b.IsConst() {
		return c.FPConst(a.Sort.W, evalFBin(op, a.Sort.W, a.Val, b.Val))
	}
	return c.mk(&T{Op: op, Sort: a.Sort, Args: []*T{a, b}})
}

func (c *Ctx) FNeg(a *T) *T {
	if a.IsConst() {
		return c.FPConst(a.Sort.W, a.Val^(uint64(1)<<uint(a.Sort.W-1)))
	}
	return c.mk(&T{Op: OpFNeg, Sort: a.Sort, Args: []*T{a}})
}

func evalFCmp(op Op, w int, x, y uint64) bool {
	a, b := fval(w, x), fval(w, y)
	switch op {
	case OpFEq:
		return a == b
	case OpFLt:
		return a < b
	case OpFLe:
		return a <= b
	}
	panic("evalFCmp")
}

func (c *Ctx) FCmp(op Op, a, b *T) *T {
	if a.IsConst() && b.IsConst() {
		return c.BoolConst(evalFCmp(op, a.Sort.W, a.Val, b.Val))
	}
	return c.mk(&T{Op: op, Sort: Sort{Bool, 0}, Args: []*T{a, b}})
}

func (c *Ctx) FIsNaN(a *T) *T {
	if a.IsConst() {
		f := fval(a.Sort.W, a.Val)
		return c.BoolConst(f != f)
	}
	return c.mk(&T{Op: OpFIsNaN, Sort: Sort{Bool, 0}, Args: []*T{a}})
}

func (c *Ctx) FFromBits(a *T) *T {
	if a.IsConst() {
		return c.FPConst(a.Sort.W, a.Val)
	}
	return c.mk(&T{Op: OpFFromBits, Sort: Sort{FP, a.Sort.W}, Args: []*T{a}})
}

// FBitsOf returns the bit-vector a float term was built from, if it is
// syntactically a reinterpretation; nil otherwise.
func (c *Ctx) FBitsOf(a *T) *T {
	if a.IsConst() {
		return c.BVConst(a.Sort.W, a.Val)
	}
	if a.Op == OpFFromBits {
		return a.Args[0]
	}
	if a.Op == OpIte {
		x, y := c.FBitsOf(a.Args[1]), c.FBitsOf(a.Args[2])
		if x != nil && y != nil {
			return c.Ite(a.Args[0], x, y)
		}
	}
	return nil
}

func (c *Ctx) FFromInt(a *T, fw int, signed bool) *T {
	if a.IsConst() {
		var f float64
		if signed {
			f = float64(sext(a.Val, a.Sort.W))
			if fw == 32 {
				return c.F32(float32(sext(a.Val, a.Sort.W)))
			}
		} else {
			f = float64(a.Val)
			if fw == 32 {
				return c.F32(float32(a.Val))
			}
		}
		return c.F64(f)
	}
	// narrow the integer first: converting a 64-bit vector is expensive for the solver
	narrowU := func(hi uint64) *T {
		k := bits.Len64(hi)
		if k < 1 {
			k = 1
		}
		x := a
		if k < a.Sort.W {
			x = c.Extract(a, k-1, 0)
		}
		return c.mk(&T{Op: OpFFromUInt, Sort: Sort{FP, fw}, Args: []*T{x}})
	}
	if !signed {
		return narrowU(a.hi)
	}
	if a.slo >= 0 {
		return narrowU(uint64(a.shi))
	}
	m := a.shi
	if -(a.slo + 1) > m {
		m = -(a.slo + 1)
	}
	k := bits.Len64(uint64(m)) + 1
	x := a
	if k < a.Sort.W {
		x = c.Extract(a, k-1, 0)
	}
	return c.mk(&T{Op: OpFFromSInt, Sort: Sort{FP, fw}, Args: []*T{x}})
}

func evalFToSInt(fw, w int, v uint64) uint64 {
	f := fval(fw, v)
	if f != f {
		return 0
	}
	t := math.Trunc(f)
	if t >= 9.3e18 || t <= -9.3e18 {
		return 0
	}
	return uint64(int64(t)) & mask(w)
}

// FToSInt converts with truncation toward zero; the result is only
// meaningful when the value fits the signed width w.
func (c *Ctx) FToSInt(a *T, w int) *T {
	if a.IsConst() {
		return c.BVConst(w, evalFToSInt(a.Sort.W, w, a.Val))
	}
	return c.mk(&T{Op: OpFToSInt, Sort: Sort{BV, w}, Args: []*T{a}})
}

var fRoundModes = [...]string{"RNE", "RNA", "RTP", "RTN", "RTZ"}

func evalFRound(mode int, w int, v uint64) uint64 {
	f := fval(w, v)
	var r float64
	switch mode {
	case 0:
		r = math.RoundToEven(f)
	case 1:
		r = math.Round(f)
	case 2:
		r = math.Ceil(f)
	case 3:
		r = math.Floor(f)
	default:
		r = math.Trunc(f)
	}
	return fbits(w, r)
}

func (c *Ctx) FRound(a *T, mode int) *T {
	if a.IsConst() {
		return c.FPConst(a.Sort.W, evalFRound(mode, a.Sort.W, a.Val))
	}
	return c.mk(&T{Op: OpFRound, Sort: a.Sort, Args: []*T{a}, Lo: mode})
}

func (c *Ctx) FAbs(a *T) *T {
	if a.IsConst() {
		return c.FPConst(a.Sort.W, a.Val&^(uint64(1)<<uint(a.Sort.W-1)))
	}
	return c.mk(&T{Op: OpFAbs, Sort: a.Sort, Args: []*T{a}})
}

func (c *Ctx) FConv(a *T, w int) *T {
	if a.Sort.W == w {
		return a
	}
	if a.IsConst() {
		return c.FPConst(w, fbits(w, fval(a.Sort.W, a.Val)))
	}
	return c.mk(&T{Op: OpFConv, Sort: Sort{FP, w}, Args: []*T{a}})
}

// ---- evaluation -----------------------------------------------------------

type Model map[string]uint64

func (c *Ctx) Eval(t *T, m Model, memo map[int]uint64) uint64 {
	if t.Op == OpConst {
		return t.Val
	}
	if v, ok := memo[t.ID]; ok {
		return v
	}
	var r uint64
	ev := func(i int) uint64 { return c.Eval(t.Args[i], m, memo) }
	b2u := func(b bool) uint64 {
		if b {
			return 1
		}
		return 0
	}
	switch t.Op {
	case OpVar:
		r = m[t.Name] & mask64(t.Sort)
	case OpAdd, OpSub, OpMul, OpUDiv, OpURem, OpSDiv, OpSRem, OpAnd, OpOr, OpXor, OpShl, OpLShr, OpAShr:
		r = evalBin(t.Op, t.Sort.W, ev(0), ev(1))
	case OpNot:
		r = ^ev(0) & mask(t.Sort.W)
	case OpNeg:
		r = -ev(0) & mask(t.Sort.W)
	case OpConcat:
		r = ev(0)<<uint(t.Args[1].Sort.W) | ev(1)
	case OpExtract:
		r = (ev(0) >> uint(t.Lo)) & mask(t.Hi-t.Lo+1)
	case OpZExt:
		r = ev(0)
	case OpSExt:
		r = uint64(sext(ev(0), t.Args[0].Sort.W)) & mask(t.Sort.W)
	case OpEq:
		if t.Args[0].Sort.K == FP {
			// SMT '=' on FP: identical, all NaNs equal
			x, y := ev(0), ev(1)
			w := t.Args[0].Sort.W
			fx, fy := fval(w, x), fval(w, y)
			r = b2u(x == y || (fx != fx && fy != fy))
		} else {
			r = b2u(ev(0) == ev(1))
		}
	case OpULt:
		r = b2u(ev(0) < ev(1))
	case OpULe:
		r = b2u(ev(0) <= ev(1))
	case OpSLt:
		w := t.Args[0].Sort.W
		r = b2u(sext(ev(0), w) < sext(ev(1), w))
	case OpSLe:
		w := t.Args[0].Sort.W
		r = b2u(sext(ev(0), w) <= sext(ev(1), w))
	case OpBAnd:
		r = ev(0) & ev(1)
	case OpBOr:
		r = ev(0) | ev(1)
	case OpBNot:
		r = ev(0) ^ 1
	case OpIte:
		if ev(0) == 1 {
			r = ev(1)
		} else {
			r = ev(2)
		}
	case OpFAdd, OpFSub, OpFMul, OpFDiv:
		r = evalFBin(t.Op, t.Sort.W, ev(0), ev(1))
	case OpFNeg:
		r = ev(0) ^ (uint64(1) << uint(t.Sort.W-1))
	case OpFEq, OpFLt, OpFLe:
		r = b2u(evalFCmp(t.Op, t.Args[0].Sort.W, ev(0), ev(1)))
	case OpFIsNaN:
		f := fval(t.Args[0].Sort.W, ev(0))
		r = b2u(f != f)
	case OpFFromBits:
		r = ev(0)
	case OpFFromSInt:
		v := sext(ev(0), t.Args[0].Sort.W)
		if t.Sort.W == 32 {
			r = uint64(math.Float32bits(float32(v)))
		} else {
			r = math.Float64bits(float64(v))
		}
	case OpFFromUInt:
		v := ev(0)
		if t.Sort.W == 32 {
			r = uint64(math.Float32bits(float32(v)))
		} else {
			r = math.Float64bits(float64(v))
		}
	case OpFToSInt:
		r = evalFToSInt(t.Args[0].Sort.W, t.Sort.W, ev(0))
	case OpFConv:
		r = fbits(t.Sort.W, fval(t.Args[0].Sort.W, ev(0)))
	case OpFAbs:
		r = ev(0) &^ (uint64(1) << uint(t.Sort.W-1))
	case OpFRound:
		r = evalFRound(t.Lo, t.Sort.W, ev(0))
	default:
		panic(fmt.Sprintf("eval: op %d", t.Op))
	}
	memo[t.ID] = r
	return r
}

func mask64(s Sort) uint64 {
	if s.K == Bool {
		return 1
	}
	return mask(s.W)
}

// ---- SMT printing ---------------------------------------------------------

func constSMT(t *T) string {
	switch t.Sort.K {
	case Bool:
		if t.Val == 1 {
			return "true"
		}
		return "false"
	case BV:
		if t.Sort.W%4 == 0 {
			return fmt.Sprintf("#x%0*x", t.Sort.W/4, t.Val)
		}
		return fmt.Sprintf("#b%0*b", t.Sort.W, t.Val)
	default:
		if t.Sort.W == 32 {
			return fmt.Sprintf("(fp #b%01b #b%08b #b%023b)", t.Val>>31, (t.Val>>23)&0xff, t.Val&0x7fffff)
		}
		return fmt.Sprintf("(fp #b%01b #b%011b #b%052b)", t.Val>>63, (t.Val>>52)&0x7ff, t.Val&((1<<52)-1))
	}
}

// Ref returns the name by which a term is referenced in SMT text.
func Ref(t *T) string {
	switch t.Op {
	case OpConst:
		return constSMT(t)
	case OpVar:
		return t.Name
	}
	return fmt.Sprintf("t%d", t.ID)
}

// Body returns the SMT expression of a non-leaf term, referencing children by name.
func Body(t *T) string {
	r := func(i int) string { return Ref(t.Args[i]) }
	fpTo := func(w int) string {
		if w == 32 {
			return "(_ to_fp 8 24)"
		}
		return "(_ to_fp 11 53)"
	}
	switch t.Op {
	case OpExtract:
		return fmt.Sprintf("((_ extract %d %d) %s)", t.Hi, t.Lo, r(0))
	case OpZExt:
		return fmt.Sprintf("((_ zero_extend %d) %s)", t.Sort.W-t.Args[0].Sort.W, r(0))
	case OpSExt:
		return fmt.Sprintf("((_ sign_extend %d) %s)", t.Sort.W-t.Args[0].Sort.W, r(0))
	case OpFFromBits:
		return fmt.Sprintf("(%s %s)", fpTo(t.Sort.W), r(0))
	case OpFFromSInt:
		return fmt.Sprintf("(%s RNE %s)", fpTo(t.Sort.W), r(0))
	case OpFFromUInt:
		if t.Sort.W == 32 {
			return fmt.Sprintf("((_ to_fp_unsigned 8 24) RNE %s)", r(0))
		}
		return fmt.Sprintf("((_ to_fp_unsigned 11 53) RNE %s)", r(0))
	case OpFToSInt:
		return fmt.Sprintf("((_ fp.to_sbv %d) RTZ %s)", t.Sort.W, r(0))
	case OpFConv:
		return fmt.Sprintf("(%s RNE %s)", fpTo(t.Sort.W), r(0))
	case OpFAbs:
		return fmt.Sprintf("(fp.abs %s)", r(0))
	case OpFRound:
		return fmt.Sprintf("(fp.roundToIntegral %s %s)", fRoundModes[t.Lo], r(0))
	}
	n, ok := opName[t.Op]
	if !ok {
		panic(fmt.Sprintf("smt: op %d", t.Op))
	}
	var sb strings.Builder
	sb.WriteString("(")
	sb.WriteString(n)
	for i := range t.Args {
		sb.WriteString(" ")
		sb.WriteString(r(i))
	}
	sb.WriteString(")")
	return sb.String()
}
