//go:build verif

package cemi

func init() {
	verifHarnesses["HarnessC18RoundTrip"] = HarnessC18RoundTrip
	verifHarnesses["HarnessC18Ctors"] = HarnessC18Ctors
	verifHarnesses["HarnessC18ParseBytes"] = HarnessC18ParseBytes
	verifHarnesses["HarnessC18ParseShape"] = HarnessC18ParseShape
}

// HarnessC18RoundTrip: a = {0 group | 1 individual}; every non-zero 16-bit address.
func HarnessC18RoundTrip(a []int) {
	addr := nondetU16()
	verifAssume(addr != 0)
	if a[0] == 0 {
		s := GroupAddr(addr).String()
		back, err := NewGroupAddrString(s)
		verifAssert("C18.rt.group.accepts", err == nil)
		verifAssert("C18.rt.group.same", uint16(back) == addr)
		verifObserve("len", len(s))
	} else {
		s := IndividualAddr(addr).String()
		back, err := NewIndividualAddrString(s)
		verifAssert("C18.rt.indiv.accepts", err == nil)
		verifAssert("C18.rt.indiv.same", uint16(back) == addr)
		verifObserve("len", len(s))
	}
	verifCover("C18.rt.end")
}

// HarnessC18Ctors: component constructors against the documented bit fields.
func HarnessC18Ctors(a []int) {
	x, y, z := nondetU8(), nondetU8(), nondetU8()
	w := nondetU16()
	verifAssert("C18.ctor.group3", uint16(NewGroupAddr3(x, y, z)) == uint16(x&31)<<11|uint16(y&7)<<8|uint16(z))
	verifAssert("C18.ctor.group2", uint16(NewGroupAddr2(x, w)) == uint16(x&31)<<11|(w&0x7FF))
	verifAssert("C18.ctor.indiv3", uint16(NewIndividualAddr3(x, y, z)) == uint16(x&15)<<12|uint16(y&15)<<8|uint16(z))
	verifAssert("C18.ctor.indiv2", uint16(NewIndividualAddr2(x, y)) == uint16(x)<<8|uint16(y))
	verifCover("C18.ctor.end")
}

// c18Ref is the documented language (DESIGN B.4), written independently of the implementation.
func c18Ref(s []byte, group bool) (uint16, bool) {
	sep := byte('.')
	if group {
		sep = '/'
	}
	var v [3]int
	n := 0
	start := 0
	for i := 0; i <= len(s); i++ {
		if i < len(s) && s[i] != sep {
			continue
		}
		c := s[start:i]
		start = i + 1
		if n == 3 || len(c) == 0 {
			return 0, false
		}
		neg := false
		if c[0] == '+' || c[0] == '-' {
			neg = c[0] == '-'
			c = c[1:]
			if len(c) == 0 {
				return 0, false
			}
		}
		x := 0
		for _, ch := range c {
			if ch < '0' || ch > '9' {
				return 0, false
			}
			x = x*10 + int(ch-'0')
		}
		if neg {
			x = -x
		}
		v[n] = x
		n++
	}
	return c18Compose(v, n, group)
}

func c18Compose(v [3]int, n int, group bool) (uint16, bool) {
	in := func(x, hi int) bool { return x >= 0 && x <= hi }
	switch {
	case n == 1:
		if v[0] >= 1 && v[0] <= 65535 {
			return uint16(v[0]), true
		}
	case n == 2 && group:
		if in(v[0], 31) && in(v[1], 2047) && (v[0] != 0 || v[1] != 0) {
			return uint16(v[0])<<11 | uint16(v[1]), true
		}
	case n == 2:
		if in(v[0], 255) && in(v[1], 255) && (v[0] != 0 || v[1] != 0) {
			return uint16(v[0])<<8 | uint16(v[1]), true
		}
	case n == 3 && group:
		if in(v[0], 31) && in(v[1], 7) && in(v[2], 255) && (v[0] != 0 || v[1] != 0 || v[2] != 0) {
			return uint16(v[0])<<11 | uint16(v[1])<<8 | uint16(v[2]), true
		}
	case n == 3:
		if in(v[0], 15) && in(v[1], 15) && in(v[2], 255) && (v[0] != 0 || v[1] != 0 || v[2] != 0) {
			return uint16(v[0])<<12 | uint16(v[1])<<8 | uint16(v[2]), true
		}
	}
	return 0, false
}

func c18Check(s []byte, group bool, want uint16, ok bool) {
	var got uint16
	var err error
	if group {
		var g GroupAddr
		g, err = NewGroupAddrString(string(s))
		got = uint16(g)
	} else {
		var g IndividualAddr
		g, err = NewIndividualAddrString(string(s))
		got = uint16(g)
	}
	verifObserve("accepted", err == nil)
	if ok {
		verifCover("C18.parse.accept")
		verifAssert("C18.parse.accepts_valid", err == nil)
		verifAssert("C18.parse.value", got == want)
	} else {
		verifCover("C18.parse.reject")
		verifAssert("C18.parse.rejects_invalid", err != nil)
	}
}

// HarnessC18ParseBytes: a = {kind, L}: every byte string of length L.
func HarnessC18ParseBytes(a []int) {
	group := a[0] == 0
	s := nondetBytes(a[1])
	want, ok := c18Ref(s, group)
	c18Check(s, group, want, ok)
}

// HarnessC18ParseShape: a = {kind, ncomp, digits1, digits2, digits3, digits4, signmask}: grammar-shaped
// text with symbolic digits and symbolic separator bytes (a separator is either the right
// one or a byte that is neither a digit nor the right separator).
func HarnessC18ParseShape(a []int) {
	group := a[0] == 0
	sep := byte('.')
	if group {
		sep = '/'
	}
	ncomp := a[1]
	var s []byte
	var v [3]int
	allSep := true
	for k := 0; k < ncomp; k++ {
		if k > 0 {
			b := nondetU8()
			verifAssume(b < '0' || b > '9')
			if b != sep {
				allSep = false
			}
			s = append(s, b)
		}
		neg := false
		if a[6]>>uint(k)&1 == 1 {
			if nondetBool() {
				s = append(s, '-')
				neg = true
			} else {
				s = append(s, '+')
			}
		}
		x := 0
		for d := 0; d < a[2+k]; d++ {
			dg := nondetU8()
			verifAssume(dg <= 9)
			s = append(s, '0'+dg)
			x = x*10 + int(dg)
			if x > 1000000 {
				// far beyond every component range (at most 65535) and growing with every further
				// digit: saturate, so that components of twenty and more digits do not wrap the oracle
				x = 1000000
			}
		}
		if neg {
			x = -x
		}
		if k < 3 {
			v[k] = x
		}
	}
	var want uint16
	ok := false
	if allSep && ncomp <= 3 {
		want, ok = c18Compose(v, ncomp, group)
	}
	c18Check(s, group, want, ok)
}
