//go:build verif

package knx

import (
	"github.com/vapourismo/knx-go/knx/knxnet"
)

func init() {
	verifHarnesses["HarnessC16HostInfo"] = HarnessC16HostInfo
}

// HarnessC16HostInfo: a = {use TCP, send local address, socket network 0 udp / 1 tcp / 2 other}:
// the endpoint advertised in the connect request.
func HarnessC16HostInfo(a []int) {
	knxnet.VerifReset("udp")
	sock := newVSock()
	sock.network = []string{"udp", "tcp", "unix"}[a[2]]
	conn := vTunnel(sock, a[0] == 1)
	conn.config.SendLocalAddress = a[1] == 1
	conn.layer = knxnet.TunnelLayerData
	go func() {
		verifDaemon()
		sock.in <- &knxnet.ConnRes{Channel: 7, Status: 0}
	}()
	err := conn.requestConn()
	local := a[1] == 1 && a[0] == 0
	switch {
	case local:
		verifCover("C16.hostinfo.local")
		verifAssert("C16.hostinfo.local_endpoint", err == nil && knxnet.VerifHostInfoCalls == 1)
		req := sock.log[0].(*knxnet.ConnReq)
		verifAssert("C16.hostinfo.advertised", req.Control == knxnet.VerifHostInfo && req.Tunnel == knxnet.VerifHostInfo)
	case a[2] == 2:
		verifAssert("C16.hostinfo.unknown_network_is_error", err != nil && len(sock.log) == 0)
	default:
		verifCover("C16.hostinfo.nat")
		verifAssert("C16.hostinfo.nat_ok", err == nil && knxnet.VerifHostInfoCalls == 0)
		req := sock.log[0].(*knxnet.ConnReq)
		proto := knxnet.UDP4
		if a[2] == 1 {
			proto = knxnet.TCP4
		}
		verifAssert("C16.hostinfo.nat_endpoint", req.Control == knxnet.HostInfo{Protocol: proto} && req.Tunnel == req.Control && req.Layer == knxnet.TunnelLayerData)
	}
}
