package exec

import (
	"os"
	"fmt"
	"go/types"
	"strings"

	"golang.org/x/tools/go/ssa"

	"kv/term"
)

// RType / RValue model the tiny part of package reflect the library uses.
type RType struct{ T types.Type }
type RValue struct {
	P    Ptr        // the pointer held (when T is a pointer type)
	T    types.Type // dynamic type of the value
	Addr Ptr        // address of the value when it is addressable (result of Indirect/Elem)
	Adr  bool
	Zero bool // reflect.Zero(T)
	S    Slice // the slice held (when T is a slice type made by reflect.MakeSlice)
	V    Value // the value held for maps (reflect.ValueOf(m)) and map keys (MapKeys)
}

func (e *Exec) resolveCallee(f *Frame, c *ssa.CallCommon) (*Closure, []Value) {
	var args []Value
	if c.IsInvoke() {
		recv := e.get(f, c.Value).(Iface)
		if recv.T == nil {
			e.goPanic("invalid memory address or nil pointer dereference")
		}
		if rt, ok := recv.V.(*RType); ok {
			args = append(args, rt)
			for _, a := range c.Args {
				args = append(args, e.get(f, a))
			}
			return &Closure{Builtin: "reflect.Type." + c.Method.Name()}, args
		}
		m := e.Prog.LookupMethod(recv.T, c.Method.Pkg(), c.Method.Name())
		if m == nil {
			e.unsupported("method %s not found on %v", c.Method.Name(), recv.T)
		}
		args = append(args, recv.V)
		for _, a := range c.Args {
			args = append(args, e.get(f, a))
		}
		return &Closure{Fn: m}, args
	}
	for _, a := range c.Args {
		args = append(args, e.get(f, a))
	}
	switch v := c.Value.(type) {
	case *ssa.Builtin:
		return &Closure{Builtin: v.Name()}, args
	case *ssa.Function:
		return &Closure{Fn: v}, args
	}
	clo, _ := e.get(f, c.Value).(*Closure)
	if clo == nil {
		e.goPanic("invalid memory address or nil pointer dereference (nil func)")
	}
	return clo, args
}

// formatMethod: the Error (preferred) or String method of the first operand in a variadic
// []interface{} that has one, with its receiver.
// parseDecimal summarises strconv.ParseInt / ParseUint for base 10 on a string of concrete length
// 1..18 with symbolic bytes (the real loops fork several ways per character): one branch for a
// leading sign (ParseInt), one for "all characters are digits", one for the range. Anything else
// (other bases, concrete or long strings) is left to the real code.
func (e *Exec) parseDecimal(args []Value, signed bool) (Value, bool) {
	str, ok := args[0].(*Str)
	if !ok || str.Opaque {
		return nil, false
	}
	bt, ok1 := args[1].(*term.T)
	st, ok2 := args[2].(*term.T)
	if !ok1 || !ok2 || !bt.IsConst() || !st.IsConst() || bt.Val != 10 {
		return nil, false
	}
	bs := e.strBytes(str)
	n := len(bs)
	if n < 1 || n > 18 {
		return nil, false
	}
	sym := false
	for _, b := range bs {
		if !b.IsConst() {
			sym = true
		}
	}
	if !sym {
		return nil, false
	}
	bits := int(st.Val)
	if bits == 0 {
		bits = 64
	}
	if bits < 1 || bits > 64 {
		return nil, false
	}
	c := e.C
	k64 := func(v uint64) *term.T { return c.BVConst(64, v) }
	fail := func(tag string, v *term.T) Value {
		ne := e.numError(tag).(Ptr)
		return Tuple{v, Iface{T: types.NewPointer(e.World.Pkgs["strconv"].Type("NumError").Type()), V: ne}}
	}
	neg := false
	digits := bs
	if signed {
		isMinus := c.Eq(bs[0], c.BVConst(8, '-'))
		isPlus := c.Eq(bs[0], c.BVConst(8, '+'))
		if e.Branch(c.BOr(isMinus, isPlus), "strconv.sign") {
			neg = e.Branch(isMinus, "strconv.minus")
			digits = bs[1:]
			if len(digits) == 0 {
				return fail("strconv.ErrSyntax", k64(0)), true
			}
		}
	}
	allDigits := c.True
	val := k64(0)
	for _, b := range digits {
		d := c.Bin(term.OpSub, b, c.BVConst(8, '0'))
		allDigits = c.BAnd(allDigits, c.Cmp(term.OpULe, d, c.BVConst(8, 9)))
		val = c.Bin(term.OpAdd, c.Bin(term.OpMul, val, k64(10)), c.ZExt(d, 64))
	}
	if !e.Branch(allDigits, "strconv.digits") {
		return fail("strconv.ErrSyntax", k64(0)), true
	}
	if !signed {
		if bits < 64 {
			max := uint64(1)<<uint(bits) - 1
			if e.Branch(c.Cmp(term.OpULt, k64(max), val), "strconv.range") {
				return fail("strconv.ErrRange", k64(max)), true
			}
		}
		return Tuple{val, Iface{}}, true
	}
	cutoff := uint64(1) << uint(bits-1)
	if !neg {
		if e.Branch(c.Cmp(term.OpULe, k64(cutoff), val), "strconv.range") {
			return fail("strconv.ErrRange", k64(cutoff-1)), true
		}
		return Tuple{val, Iface{}}, true
	}
	if e.Branch(c.Cmp(term.OpULt, k64(cutoff), val), "strconv.range") {
		return fail("strconv.ErrRange", k64(-cutoff)), true
	}
	return Tuple{c.Bin(term.OpSub, k64(0), val), Iface{}}, true
}

// formatDecimal summarises strconv.Itoa / FormatUint / FormatInt / AppendUint / AppendInt in base 10
// for a symbolic value known to lie in 0..65535 (the decimal formatter of the fmt model: one branch
// per digit count); everything else is left to the real code.
func (e *Exec) formatDecimal(name string, args []Value) (Value, bool) {
	vi := 0
	isAppend := strings.HasPrefix(name, "strconv.Append")
	if isAppend {
		vi = 1
	}
	v, ok := args[vi].(*term.T)
	if !ok || v.IsConst() {
		return nil, false
	}
	if name != "strconv.Itoa" {
		b, ok := args[vi+1].(*term.T)
		if !ok || !b.IsConst() || b.Val != 10 {
			return nil, false
		}
	}
	if _, hi := v.Range(); hi > 65535 {
		return nil, false
	}
	if name == "strconv.Itoa" || name == "strconv.FormatInt" || name == "strconv.AppendInt" {
		if lo, _ := v.SRange(); lo < 0 {
			return nil, false
		}
	}
	w := v
	if w.Sort.W > 32 {
		w = e.C.Extract(w, 31, 0)
	} else if w.Sort.W < 32 {
		w = e.C.ZExt(w, 32)
	}
	digits := e.decimal(w)
	if !isAppend {
		return &Str{B: digits}, true
	}
	dst := args[0].(Slice)
	arr := e.newArrayObj(types.Typ[types.Uint8], dst.Len+len(digits))
	for i := 0; i < dst.Len; i++ {
		arr.V.(*Array).E[i] = e.sliceElem(dst, i)
	}
	for i, d := range digits {
		arr.V.(*Array).E[dst.Len+i] = d
	}
	return Slice{Arr: arr, Len: dst.Len + len(digits), Cap: dst.Len + len(digits)}, true
}

// formatVerbs returns the verb letter consuming each successive operand of a format string ('?' for
// operands used as width/precision or when explicit argument indexes make the mapping unclear).
func formatVerbs(f string) string {
	out := []byte{}
	for i := 0; i < len(f); i++ {
		if f[i] != '%' {
			continue
		}
		i++
		for i < len(f) && strings.IndexByte("#0+- ", f[i]) >= 0 {
			i++
		}
		if i < len(f) && f[i] == '[' {
			return strings.Repeat("?", 64)
		}
		for i < len(f) && (f[i] >= '0' && f[i] <= '9' || f[i] == '*') {
			if f[i] == '*' {
				out = append(out, '?')
			}
			i++
		}
		if i < len(f) && f[i] == '.' {
			i++
			for i < len(f) && (f[i] >= '0' && f[i] <= '9' || f[i] == '*') {
				if f[i] == '*' {
					out = append(out, '?')
				}
				i++
			}
		}
		if i < len(f) && f[i] != '%' {
			out = append(out, f[i])
		}
	}
	return string(out)
}

// formatMethod (continued): verbs gives the verb per operand (all = every operand is formatted like %v).
func (e *Exec) formatMethod(variadic Value, verbs string, all bool) (*ssa.Function, Value) {
	args, ok := variadic.(Slice)
	if !ok {
		return nil, nil
	}
	for i := 0; i < args.Len; i++ {
		// fmt consults Error/String only for the verbs that are valid for strings
		if !all && (i >= len(verbs) || strings.IndexByte("vsqxX", verbs[i]) < 0) {
			continue
		}
		iv, ok := e.sliceElem(args, i).(Iface)
		if !ok || iv.T == nil {
			continue
		}
		if _, isR := iv.V.(*RType); isR {
			continue
		}
		for _, name := range []string{"Error", "String"} {
			ms := e.Prog.MethodSets.MethodSet(iv.T)
			for j := 0; j < ms.Len(); j++ {
				sel := ms.At(j)
				if sel.Obj().Name() != name {
					continue
				}
				sig, ok := sel.Type().(*types.Signature)
				if !ok || sig.Params().Len() != 0 || sig.Results().Len() != 1 || !types.Identical(sig.Results().At(0).Type(), types.Typ[types.String]) {
					continue
				}
				if m := e.Prog.MethodValue(sel); m != nil && m.Blocks != nil && m.Pkg != nil && e.World.InitPkgs[m.Pkg.Pkg.Path()] {
					return m, iv.V // methods of the library's own types only (foreign ones are not interpreted here)
				}
			}
		}
	}
	return nil, nil
}

func (e *Exec) doCall(t *Thread, f *Frame, x *ssa.Call, granted bool) stepRes {
	clo, args := e.resolveCallee(f, x.Common())
	return e.invoke(t, f, clo, args, x, retNormal, granted, nil)
}

type stubFn func(e *Exec, t *Thread, args []Value, granted bool) (Value, bool)

func (e *Exec) isStub(fn *ssa.Function) bool {
	_, ok := e.stubFor(fn)
	return ok
}

func (e *Exec) stubFor(fn *ssa.Function) (stubFn, bool) {
	name := fnName(fn)
	if s, ok := stubs[name]; ok {
		return s, true
	}
	// harness intrinsics: functions without receiver named nondet* / verif*
	if fn.Signature.Recv() == nil && fn.Pkg != nil {
		n := fn.Name()
		if strings.HasPrefix(n, "nondet") || strings.HasPrefix(n, "verif") {
			if s, ok := intrinsics[n]; ok {
				return s, true
			}
		}
	}
	return nil, false
}

// invoke calls clo with args on behalf of frame f.
func (e *Exec) invoke(t *Thread, f *Frame, clo *Closure, args []Value, call *ssa.Call, rk retKind, granted bool, undo func()) stepRes {
	finish := func(res Value) stepRes {
		if rk == retNormal {
			if call != nil {
				f.L[call] = res
			}
			f.IP++
		}
		return stCont
	}
	if clo.Fn == nil {
		res, ok := e.builtin(t, clo, args, granted)
		if !ok {
			if undo != nil {
				undo()
			}
			return stPark
		}
		return finish(res)
	}
	if r := e.redirect(clo.Fn); r != nil {
		e.Stats.Stubs[fnName(clo.Fn)+" -> "+r.Name()] = true
		clo = &Closure{Fn: r}
	}
	if n := fnName(clo.Fn); n == "fmt.Errorf" || n == "fmt.Sprintf" || n == "fmt.Sprint" || n == "fmt.Sprintln" {
		// the text stays opaque (or a modelled decimal rendering), but formatting calls the Error / String
		// method of an operand that has one - a method that formats its own receiver again recurses forever
		if s, ok := e.stubFor(clo.Fn); ok {
			res, _ := s(e, t, args, granted)
			verbs := ""
			if n == "fmt.Errorf" || n == "fmt.Sprintf" {
				fs, ok := "", false
				if f, isStr := args[0].(*Str); isStr {
					fs, ok = e.concreteStr(f)
				}
				if !ok {
					return finish(res)
				}
				verbs = formatVerbs(fs)
			}
			if m, recv := e.formatMethod(args[len(args)-1], verbs, n == "fmt.Sprint" || n == "fmt.Sprintln"); m != nil {
				e.Stats.Stubs[n] = true
				var cv ssa.Value
				if call != nil {
					cv = call
				}
				nf := e.pushCall(t, &Closure{Fn: m}, []Value{recv}, cv, rk)
				nf.retVal, nf.hasRetVal = res, true
				return stCont
			}
			e.Stats.Stubs[n] = true
			return finish(res)
		}
	}
	if n := fnName(clo.Fn); (n == "strconv.ParseInt" || n == "strconv.ParseUint") && os.Getenv("KV_NOSUMMARY") == "" {
		if res, ok := e.parseDecimal(args, n == "strconv.ParseInt"); ok {
			e.Stats.Stubs[n+" (base 10, symbolic digits: summarised)"] = true
			return finish(res)
		}
	}
	if n := fnName(clo.Fn); os.Getenv("KV_NOSUMMARY") == "" && (n == "strconv.Itoa" || n == "strconv.FormatUint" || n == "strconv.FormatInt" || n == "strconv.AppendUint" || n == "strconv.AppendInt") {
		if res, ok := e.formatDecimal(n, args); ok {
			e.Stats.Stubs[n+" (base 10, symbolic value below 65536: built-in decimal formatter)"] = true
			return finish(res)
		}
	}
	if fnName(clo.Fn) == "(*sync.Pool).Get" {
		// model: the item put back last is handed out again (maximal reuse: aliasing bugs show);
		// an empty pool calls New (or yields nil)
		e.Stats.Stubs["(*sync.Pool).Get"] = true
		pp := args[0].(Ptr)
		if items := e.pools[pp.Obj]; len(items) > 0 {
			v := items[len(items)-1]
			e.pools[pp.Obj] = items[:len(items)-1]
			return finish(v)
		}
		st := e.load(pp).(*Struct)
		newFn, _ := st.F[len(st.F)-1].(*Closure)
		if newFn == nil {
			return finish(Iface{})
		}
		var cv ssa.Value
		if call != nil {
			cv = call
		}
		e.pushCall(t, newFn, nil, cv, rk)
		return stCont
	}
	if fnName(clo.Fn) == "(*sync.Once).Do" {
		o := e.syncObj(args[0].(Ptr))
		if !granted {
			t.pend = &pending{kind: pkOnce, mu: o}
			if undo != nil {
				undo()
			}
			return stPark
		}
		st := e.sync(o)
		e.Stats.Stubs["(*sync.Once).Do"] = true
		vcJoin(&t.vc, st.vc)
		e.tick(t)
		if st.done {
			return finish(nil)
		}
		st.busy = true
		fn, _ := args[1].(*Closure)
		if fn == nil {
			e.goPanic("nil func in Once.Do")
		}
		var cv ssa.Value
		if call != nil {
			cv = call
		}
		nf := e.pushCall(t, fn, nil, cv, rk)
		nf.onDone = func(Value) {
			st.done, st.busy = true, false
			e.tick(t)
			st.vc = vcCopy(t.vc)
		}
		return stCont
	}
	if s, ok := e.stubFor(clo.Fn); ok {
		e.Stats.Stubs[fnName(clo.Fn)] = true
		res, ok := s(e, t, args, granted)
		if !ok {
			if undo != nil {
				undo()
			}
			return stPark
		}
		return finish(res)
	}
	if clo.Fn.Name() == "init" && clo.Fn.Pkg != nil && clo.Fn.Signature.Recv() == nil &&
		clo.Fn.Parent() == nil && !e.World.InitPkgs[clo.Fn.Pkg.Pkg.Path()] {
		// initialiser of a package outside the repository: not executed (see foreignGlobal)
		return finish(nil)
	}
	var cv ssa.Value
	if call != nil {
		cv = call
	}
	e.pushCall(t, clo, args, cv, rk)
	return stCont
}

func (e *Exec) builtinOrStub(t *Thread, clo *Closure, args []Value, granted bool) (Value, bool) {
	if clo.Fn == nil {
		return e.builtin(t, clo, args, granted)
	}
	s, _ := e.stubFor(clo.Fn)
	return s(e, t, args, granted)
}

// redirects: library functions that open real sockets or parse OS addresses are replaced by
// harness functions of the same package (environment model), when the harness defines them.
var redirects = map[string]string{
	"github.com/vapourismo/knx-go/knx/knxnet.DialTunnelUDP":           "verifDialTunnelUDP",
	"github.com/vapourismo/knx-go/knx/knxnet.DialTunnelTCP":           "verifDialTunnelTCP",
	"github.com/vapourismo/knx-go/knx/knxnet.ListenRouterOnInterface": "verifListenRouter",
	"github.com/vapourismo/knx-go/knx/knxnet.HostInfoFromAddress":     "verifHostInfoFromAddress",
	// package context is modelled by a small harness type (Done channel closed by a virtual-clock timer)
	"context.WithTimeout": "github.com/vapourismo/knx-go/knx/knxnet.VerifContextWithTimeout",
	"context.WithCancel":  "github.com/vapourismo/knx-go/knx/knxnet.VerifContextWithCancel",
}

func (e *Exec) redirect(fn *ssa.Function) *ssa.Function {
	to, ok := redirects[fnName(fn)]
	if !ok || fn.Pkg == nil {
		return nil
	}
	if e.realDial && (strings.HasSuffix(fnName(fn), "knxnet.DialTunnelUDP") || strings.HasSuffix(fnName(fn), "knxnet.DialTunnelTCP") || strings.HasSuffix(fnName(fn), "knxnet.HostInfoFromAddress")) {
		return nil
	}
	if i := strings.LastIndex(to, "."); i >= 0 {
		if p := e.World.Pkgs[to[:i]]; p != nil {
			return p.Func(to[i+1:])
		}
		return nil
	}
	return fn.Pkg.Func(to)
}

// callInline runs a non-blocking builtin or stub immediately (used while unwinding).
func (e *Exec) callInline(t *Thread, clo *Closure, args []Value) {
	if clo.Fn == nil {
		e.builtin(t, clo, args, true)
		return
	}
	if s, ok := e.stubFor(clo.Fn); ok {
		s(e, t, args, true)
	}
}

// ---- builtins --------------------------------------------------------------------------------

func (e *Exec) builtin(t *Thread, clo *Closure, args []Value, granted bool) (Value, bool) {
	c := e.C
	switch clo.Builtin {
	case "len":
		switch x := args[0].(type) {
		case Slice:
			if x.Arr != nil && x.Arr.Lazy != nil {
				e.sliceArr(x)
			}
			return c.BVConst(64, uint64(x.Len)), true
		case *Str:
			if x.Opaque {
				e.unsupported("len of opaque string")
			}
			return c.BVConst(64, uint64(len(e.strBytes(x)))), true
		case *Map:
			if x == nil {
				return c.BVConst(64, 0), true
			}
			return c.BVConst(64, uint64(len(x.Keys))), true
		case *Array:
			return c.BVConst(64, uint64(len(x.E))), true
		case Ptr:
			return c.BVConst(64, uint64(len(e.peek(x).(*Array).E))), true
		case *Chan:
			return c.BVConst(64, uint64(len(x.Buf))), true
		}
	case "cap":
		switch x := args[0].(type) {
		case Slice:
			if x.Arr != nil && x.Arr.Lazy != nil {
				e.sliceArr(x)
			}
			return c.BVConst(64, uint64(x.Cap)), true
		case *Array:
			return c.BVConst(64, uint64(len(x.E))), true
		case *Chan:
			return c.BVConst(64, uint64(x.Cap)), true
		}
	case "append":
		return e.appendOp(args[0].(Slice), args[1]), true
	case "copy":
		dst := args[0].(Slice)
		var n int
		switch src := args[1].(type) {
		case Slice:
			n = dst.Len
			if src.Len < n {
				n = src.Len
			}
			tmp := make([]Value, n)
			for i := 0; i < n; i++ {
				tmp[i] = copyVal(e.sliceElem(src, i))
			}
			for i := 0; i < n; i++ {
				e.storeElem(dst, i, tmp[i])
			}
		case *Str:
			bs := e.strBytes(src)
			n = dst.Len
			if len(bs) < n {
				n = len(bs)
			}
			for i := 0; i < n; i++ {
				e.storeElem(dst, i, bs[i])
			}
		}
		return c.BVConst(64, uint64(n)), true
	case "close":
		if !granted {
			t.pend = &pending{kind: pkClose}
			return nil, false
		}
		e.closeChan(t, args[0].(*Chan))
		return nil, true
	case "delete":
		m := args[0].(*Map)
		if m != nil {
			ks, ok := e.keyOf(args[1])
			if !ok {
				e.unsupported("symbolic key in delete")
			}
			if i, ok := m.K[ks]; ok {
				delete(m.K, ks)
				m.Keys = append(m.Keys[:i:i], m.Keys[i+1:]...)
				m.Vals = append(m.Vals[:i:i], m.Vals[i+1:]...)
				for k, j := range m.K {
					if j > i {
						m.K[k] = j - 1
					}
				}
			}
		}
		return nil, true
	case "recover":
		// valid only in a deferred function called directly by the unwinder
		f := e.top(t)
		if t.panicking != nil && !t.panicking.recovered && f.panicDefer {
			t.panicking.recovered = true
			return t.panicking.val, true
		}
		return Iface{}, true
	case "ssa:wrapnilchk":
		if p, ok := args[0].(Ptr); ok && p.IsNil() {
			e.goPanic("value method called using nil pointer")
		}
		return args[0], true
	case "print", "println":
		return nil, true
	case "min", "max":
		r := args[0].(*term.T)
		for _, a := range args[1:] {
			y := a.(*term.T)
			lt := c.Cmp(term.OpSLt, y, r)
			if clo.Builtin == "max" {
				lt = c.Cmp(term.OpSLt, r, y)
			}
			r = c.Ite(lt, y, r)
		}
		return r, true
	}
	if strings.HasPrefix(clo.Builtin, "reflect.Type.") {
		rt := args[0].(*RType)
		switch clo.Builtin {
		case "reflect.Type.Elem":
			switch u := rt.T.Underlying().(type) {
			case *types.Pointer:
				return e.rtypeIface(u.Elem()), true
			}
		case "reflect.Type.String":
			return e.strConst(types.TypeString(rt.T, func(p *types.Package) string { return p.Name() })), true
		}
	}
	e.unsupported("builtin %s on %T", clo.Builtin, args)
	return nil, true
}

func (e *Exec) rtypeIface(t types.Type) Value {
	return Iface{T: rtypeMarker, V: &RType{T: t}}
}

var rtypeMarker = types.NewNamed(types.NewTypeName(0, nil, "reflect.rtype", nil), types.NewStruct(nil, nil), nil)

func (e *Exec) storeElem(s Slice, i int, v Value) {
	arr := e.sliceArr(s)
	arr.E[s.Off+i] = e.assign(arr.E[s.Off+i], v)
}

func (e *Exec) appendOp(s Slice, add Value) Value {
	var elems []Value
	switch a := add.(type) {
	case Slice:
		for i := 0; i < a.Len; i++ {
			elems = append(elems, copyVal(e.sliceElem(a, i)))
		}
	case *Str:
		for _, b := range e.strBytes(a) {
			elems = append(elems, b)
		}
	default:
		e.unsupported("append of %T", add)
	}
	if len(elems) == 0 {
		return s
	}
	n := s.Len + len(elems)
	if s.Arr != nil && n <= s.Cap {
		for i, v := range elems {
			e.storeElem(Slice{Arr: s.Arr, Off: s.Off, Len: n, Cap: s.Cap}, s.Len+i, v)
		}
		return Slice{Arr: s.Arr, Off: s.Off, Len: n, Cap: s.Cap}
	}
	// grow: new backing array (capacity doubling like the runtime, roughly)
	ncap := s.Cap * 2
	if ncap < n {
		ncap = n
	}
	arr := &Array{E: make([]Value, ncap)}
	for i := 0; i < s.Len; i++ {
		arr.E[i] = copyVal(e.sliceElem(s, i))
	}
	for i, v := range elems {
		arr.E[s.Len+i] = v
	}
	var z Value
	for i := n; i < ncap; i++ {
		if z == nil {
			z = e.zeroLike(elems[0])
		}
		arr.E[i] = copyVal(z)
	}
	obj := e.newObj(nil, arr)
	return Slice{Arr: obj, Len: n, Cap: ncap}
}

// zeroLike returns a zero value shaped like v (for unused capacity).
func (e *Exec) zeroLike(v Value) Value {
	switch x := v.(type) {
	case *term.T:
		switch x.Sort.K {
		case term.Bool:
			return e.C.False
		case term.FP:
			return e.C.FPConst(x.Sort.W, 0)
		}
		return e.C.BVConst(x.Sort.W, 0)
	case *Struct:
		n := &Struct{F: make([]Value, len(x.F))}
		for i := range x.F {
			n.F[i] = e.zeroLike(x.F[i])
		}
		return n
	case *Array:
		n := &Array{E: make([]Value, len(x.E))}
		for i := range x.E {
			n.E[i] = e.zeroLike(x.E[i])
		}
		return n
	case Ptr:
		return Ptr{}
	case Slice:
		return Slice{}
	case *Str:
		return &Str{}
	case Iface:
		return Iface{}
	case *Map:
		return (*Map)(nil)
	case *Chan:
		return (*Chan)(nil)
	case *Closure:
		return (*Closure)(nil)
	}
	panic(fmt.Sprintf("zeroLike %T", v))
}
