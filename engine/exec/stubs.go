package exec

import (
	"fmt"
	"go/types"
	"math"
	"net"
	"regexp"
	"strings"

	"kv/term"
)

var stubs map[string]stubFn
var intrinsics map[string]stubFn

func done(v Value) (Value, bool) { return v, true }

func (e *Exec) strArg(v Value) string {
	s, ok := e.concreteStr(v.(*Str))
	if !ok {
		e.unsupported("intrinsic needs a constant string")
	}
	return s
}

func (e *Exec) intArg(v Value) int64 {
	t := v.(*term.T)
	if !t.IsConst() {
		return e.Concretize(t, "intrinsic-arg")
	}
	w := uint(t.Sort.W)
	return int64(t.Val<<(64-w)) >> (64 - w)
}

func (e *Exec) opaqueStr(tag string) *Str { return &Str{Opaque: true, Tag: tag} }

func init() {
	intrinsics = map[string]stubFn{
		"nondetU8":   func(e *Exec, t *Thread, a []Value, g bool) (Value, bool) { return done(e.newNondet(8, "u8")) },
		"nondetU16":  func(e *Exec, t *Thread, a []Value, g bool) (Value, bool) { return done(e.newNondet(16, "u16")) },
		"nondetU32":  func(e *Exec, t *Thread, a []Value, g bool) (Value, bool) { return done(e.newNondet(32, "u32")) },
		"nondetU64":  func(e *Exec, t *Thread, a []Value, g bool) (Value, bool) { return done(e.newNondet(64, "u64")) },
		"nondetBool": func(e *Exec, t *Thread, a []Value, g bool) (Value, bool) { return done(e.newNondet(1, "bool")) },
		"nondetF32": func(e *Exec, t *Thread, a []Value, g bool) (Value, bool) {
			return done(e.C.FFromBits(e.newNondet(32, "u32")))
		},
		"nondetBytes": func(e *Exec, t *Thread, a []Value, g bool) (Value, bool) {
			n := int(e.intArg(a[0]))
			obj := e.newArrayObj(types.Typ[types.Uint8], n)
			for i := 0; i < n; i++ {
				obj.V.(*Array).E[i] = e.newNondet(8, "u8")
			}
			return done(Slice{Arr: obj, Len: n, Cap: n})
		},
		"nondetGarbage": func(e *Exec, t *Thread, a []Value, g bool) (Value, bool) {
			n := int(e.intArg(a[0]))
			obj := e.newArrayObj(types.Typ[types.Uint8], n)
			for i := 0; i < n; i++ {
				v := e.newNondet(8, "g8")
				e.garbage[v.Name] = true
				obj.V.(*Array).E[i] = v
			}
			return done(Slice{Arr: obj, Len: n, Cap: n})
		},
		"verifIndep": func(e *Exec, t *Thread, a []Value, g bool) (Value, bool) {
			// syntactic independence of a term from the garbage/stale variables
			return done(e.C.BoolConst(!e.mentionsGarbage(a[0].(*term.T))))
		},
		"verifObserveNative": func(e *Exec, t *Thread, a []Value, g bool) (Value, bool) { return done(nil) },
		"nondetLen": func(e *Exec, t *Thread, a []Value, g bool) (Value, bool) {
			lo, hi := e.intArg(a[0]), e.intArg(a[1])
			k := e.Choose(int(hi-lo+1), "nondetLen")
			e.recordConcreteNondet("len", lo+int64(k))
			return done(e.C.BVConst(64, uint64(lo+int64(k))))
		},
		"nondetChoice": func(e *Exec, t *Thread, a []Value, g bool) (Value, bool) {
			n := e.intArg(a[0])
			k := e.Choose(int(n), "nondetChoice")
			e.recordConcreteNondet("choice", int64(k))
			return done(e.C.BVConst(64, uint64(k)))
		},
		"verifAssume": func(e *Exec, t *Thread, a []Value, g bool) (Value, bool) {
			e.Assume(a[0].(*term.T))
			return done(nil)
		},
		"verifAssert": func(e *Exec, t *Thread, a []Value, g bool) (Value, bool) {
			id := e.strArg(a[0])
			if !e.Branch(a[1].(*term.T), "assert:"+id) {
				panic(pathEnd{kind: "assert", detail: id, site: e.callerPos(t)})
			}
			return done(nil)
		},
		"verifCover": func(e *Exec, t *Thread, a []Value, g bool) (Value, bool) {
			e.covers = append(e.covers, e.strArg(a[0]))
			return done(nil)
		},
		"verifTag": func(e *Exec, t *Thread, a []Value, g bool) (Value, bool) {
			e.tags[e.strArg(a[0])] = a[1].(*term.T)
			return done(nil)
		},
		"verifObserve": func(e *Exec, t *Thread, a []Value, g bool) (Value, bool) {
			name := e.strArg(a[0])
			iv := a[1].(Iface)
			switch x := iv.V.(type) {
			case *term.T:
				e.obs = append(e.obs, obsRec{Name: name, T: x, Signed: iv.T != nil && isSigned(iv.T)})
			case *Str:
				s, ok := e.concreteStr(x)
				if !ok {
					s = "<sym>"
				}
				e.obs = append(e.obs, obsRec{Name: name, S: s})
			default:
				e.obs = append(e.obs, obsRec{Name: name, S: fmt.Sprintf("<%T>", iv.V)})
			}
			return done(nil)
		},
		"verifNow": func(e *Exec, t *Thread, a []Value, g bool) (Value, bool) { return done(e.nowT()) },
		"verifRegion": func(e *Exec, t *Thread, a []Value, g bool) (Value, bool) {
			s := a[0].(Slice)
			if s.Arr != nil {
				s.Arr.Valid = s.Off + int(e.intArg(a[1]))
			}
			return done(nil)
		},
		"verifTypeName": func(e *Exec, t *Thread, a []Value, g bool) (Value, bool) {
			iv := a[0].(Iface)
			if iv.T == nil {
				return done(e.strConst("<nil>"))
			}
			return done(e.strConst(types.TypeString(iv.T, func(p *types.Package) string { return p.Name() })))
		},
		"verifYield": func(e *Exec, t *Thread, a []Value, g bool) (Value, bool) {
			if !g {
				t.pend = &pending{kind: pkYield}
				return nil, false
			}
			return done(nil)
		},
		"verifQuiesce": func(e *Exec, t *Thread, a []Value, g bool) (Value, bool) {
			if !t.quiesced {
				t.pend = &pending{kind: pkQuiesce}
				return nil, false
			}
			t.quiesced = false
			// number of goroutines still alive (excluding the caller and declared daemons)
			n := 0
			for _, o := range e.threads {
				if o != t && o.state != tsDone && !o.Daemon {
					n++
				}
			}
			return done(e.C.BVConst(64, uint64(n)))
		},
		"verifDaemon": func(e *Exec, t *Thread, a []Value, g bool) (Value, bool) {
			t.Daemon = true
			return done(nil)
		},
		"verifSleep": func(e *Exec, t *Thread, a []Value, g bool) (Value, bool) {
			return e.sleep(t, e.toInt(a[0], types.Typ[types.Int64]), g)
		},
		"verifKind": func(e *Exec, t *Thread, a []Value, g bool) (Value, bool) {
			k := 0
			switch v := e.ifaceTarget(a[0]).(type) {
			case *term.T:
				tt := e.ifaceElemType(a[0])
				switch {
				case v.Sort.K == term.Bool:
					k = 1
				case v.Sort.K == term.FP:
					k = 4
				case isSigned(tt):
					k = 3
				default:
					k = 2
				}
			case *Str:
				k = 5
			case *Struct:
				k = 6
			}
			return done(e.C.BVConst(64, uint64(k)))
		},
		"verifGetF32": func(e *Exec, t *Thread, a []Value, g bool) (Value, bool) {
			return done(e.ifaceTarget(a[0]).(*term.T))
		},
		"verifGetU64": func(e *Exec, t *Thread, a []Value, g bool) (Value, bool) {
			v := e.ifaceTarget(a[0]).(*term.T)
			if v.Sort.K == term.Bool {
				return done(e.C.Ite(v, e.C.BVConst(64, 1), e.C.BVConst(64, 0)))
			}
			if isSigned(e.ifaceElemType(a[0])) {
				return done(e.C.SExt(v, 64))
			}
			return done(e.C.ZExt(v, 64))
		},
		"verifSetF32": func(e *Exec, t *Thread, a []Value, g bool) (Value, bool) {
			e.store(a[0].(Iface).V.(Ptr), a[1])
			return done(nil)
		},
		"verifSetU64": func(e *Exec, t *Thread, a []Value, g bool) (Value, bool) {
			cur := e.ifaceTarget(a[0]).(*term.T)
			v := a[1].(*term.T)
			var nv *term.T
			if cur.Sort.K == term.Bool {
				nv = e.C.Eq(e.C.Extract(v, 0, 0), e.C.BVConst(1, 1))
			} else {
				nv = e.C.Extract(v, cur.Sort.W-1, 0)
			}
			e.store(a[0].(Iface).V.(Ptr), nv)
			return done(nil)
		},
		"verifSame": func(e *Exec, t *Thread, a []Value, g bool) (Value, bool) {
			return done(e.sameBits(e.ifaceTarget(a[0]), e.ifaceTarget(a[1])))
		},
		"verifThreadID": func(e *Exec, t *Thread, a []Value, g bool) (Value, bool) {
			return done(e.C.BVConst(64, uint64(t.ID)))
		},
		"verifLockCount": func(e *Exec, t *Thread, a []Value, g bool) (Value, bool) {
			return done(e.C.BVConst(64, uint64(len(e.sync(e.syncObj(a[0].(Iface).V.(Ptr))).acq))))
		},
		"verifLockTime": func(e *Exec, t *Thread, a []Value, g bool) (Value, bool) {
			return done(e.sync(e.syncObj(a[0].(Iface).V.(Ptr))).acq[e.intArg(a[1])].at)
		},
		"verifLockThread": func(e *Exec, t *Thread, a []Value, g bool) (Value, bool) {
			return done(e.C.BVConst(64, uint64(e.sync(e.syncObj(a[0].(Iface).V.(Ptr))).acq[e.intArg(a[1])].tid)))
		},
		// ---- network environment: byte stream / datagram list consumed by the net stubs
		"verifStream": func(e *Exec, t *Thread, a []Value, g bool) (Value, bool) {
			sl := a[0].(Slice)
			e.netStream = nil
			for i := 0; i < sl.Len; i++ {
				e.netStream = append(e.netStream, e.sliceElem(sl, i).(*term.T))
			}
			e.netCuts = int(e.intArg(a[1]))
			e.netDribble = e.intArg(a[2]) == 1
			return done(nil)
		},
		"verifDatagram": func(e *Exec, t *Thread, a []Value, g bool) (Value, bool) {
			sl := a[0].(Slice)
			var d []*term.T
			for i := 0; i < sl.Len; i++ {
				d = append(d, e.sliceElem(sl, i).(*term.T))
			}
			e.netDgrams = append(e.netDgrams, d)
			return done(nil)
		},
		"verifDatagramFrom": func(e *Exec, t *Thread, a []Value, g bool) (Value, bool) {
			sl := a[0].(Slice)
			var d []*term.T
			for i := 0; i < sl.Len; i++ {
				d = append(d, e.sliceElem(sl, i).(*term.T))
			}
			e.netDgrams = append(e.netDgrams, d)
			for len(e.netFrom) < len(e.netDgrams)-1 {
				e.netFrom = append(e.netFrom, nil)
			}
			e.netFrom = append(e.netFrom, []*term.T{a[1].(*term.T), e.toInt(a[2], types.Typ[types.Int])})
			return done(nil)
		},
		"verifNetWrites": func(e *Exec, t *Thread, a []Value, g bool) (Value, bool) {
			return done(e.C.BVConst(64, uint64(len(e.netWrites))))
		},
		"verifNetWrite": func(e *Exec, t *Thread, a []Value, g bool) (Value, bool) {
			w := e.netWrites[e.intArg(a[0])]
			obj := e.newArrayObj(types.Typ[types.Uint8], len(w))
			for i, b := range w {
				obj.V.(*Array).E[i] = b
			}
			return done(Slice{Arr: obj, Len: len(w), Cap: len(w)})
		},
		"verifNetWriteTime": func(e *Exec, t *Thread, a []Value, g bool) (Value, bool) {
			return done(e.netWriteAt[e.intArg(a[0])])
		},
		"verifRealDial": func(e *Exec, t *Thread, a []Value, g bool) (Value, bool) {
			// from now on knxnet.DialTunnelUDP/TCP are executed themselves (net.Resolve*/Dial* are stubs)
			e.realDial = true
			return done(nil)
		},
		"verifNetFailFrom": func(e *Exec, t *Thread, a []Value, g bool) (Value, bool) {
			// every write attempt with index >= n fails (n < 0: never); attempts are counted from now on
			e.netFailFrom = int(e.intArg(a[0]))
			e.netAttempts = 0
			return done(nil)
		},
		"verifLockLogField": func(e *Exec, t *Thread, a []Value, g bool) (Value, bool) {
			// number of acquisitions of the sync.Mutex field with the given name of *obj
			o, fi := e.mutexField(a[0], e.strArg(a[1]))
			return done(e.C.BVConst(64, uint64(len(e.sync(e.syncObj(o.child(fi))).acq))))
		},
		"verifLockFieldTime": func(e *Exec, t *Thread, a []Value, g bool) (Value, bool) {
			o, fi := e.mutexField(a[0], e.strArg(a[1]))
			return done(e.sync(e.syncObj(o.child(fi))).acq[e.intArg(a[2])].at)
		},
		"verifLockFieldArriveSeq": func(e *Exec, t *Thread, a []Value, g bool) (Value, bool) {
			// event number at which the goroutine of the i-th acquisition arrived at Lock
			o, fi := e.mutexField(a[0], e.strArg(a[1]))
			return done(e.C.BVConst(64, uint64(e.sync(e.syncObj(o.child(fi))).acq[e.intArg(a[2])].arr)))
		},
		"verifLockFieldSeq": func(e *Exec, t *Thread, a []Value, g bool) (Value, bool) {
			o, fi := e.mutexField(a[0], e.strArg(a[1]))
			return done(e.C.BVConst(64, uint64(e.sync(e.syncObj(o.child(fi))).acq[e.intArg(a[2])].seq)))
		},
		"verifNetWriteThread": func(e *Exec, t *Thread, a []Value, g bool) (Value, bool) {
			return done(e.C.BVConst(64, uint64(e.netWriteEv[e.intArg(a[0])][0])))
		},
		"verifNetWriteSeq": func(e *Exec, t *Thread, a []Value, g bool) (Value, bool) {
			return done(e.C.BVConst(64, uint64(e.netWriteEv[e.intArg(a[0])][1])))
		},
		"verifSeq": func(e *Exec, t *Thread, a []Value, g bool) (Value, bool) {
			// global event counter shared with lock arrivals/acquisitions and network writes
			e.evSeq++
			return done(e.C.BVConst(64, uint64(e.evSeq)))
		},
		"verifMutexFIFO": func(e *Exec, t *Thread, a []Value, g bool) (Value, bool) {
			// from now on a free mutex is handed to the goroutine that arrived at Lock first
			e.mutexFIFO = true
			return done(nil)
		},
		"verifLockFieldThread": func(e *Exec, t *Thread, a []Value, g bool) (Value, bool) {
			o, fi := e.mutexField(a[0], e.strArg(a[1]))
			return done(e.C.BVConst(64, uint64(e.sync(e.syncObj(o.child(fi))).acq[e.intArg(a[2])].tid)))
		},
		"verifNetClosed": func(e *Exec, t *Thread, a []Value, g bool) (Value, bool) {
			return done(e.C.BVConst(64, uint64(e.netClosed)))
		},
		"verifNative": func(e *Exec, t *Thread, a []Value, g bool) (Value, bool) { return done(e.C.False) },
		"verifUnsupported": func(e *Exec, t *Thread, a []Value, g bool) (Value, bool) {
			e.unsupported("harness: %s", e.strArg(a[0]))
			return done(nil)
		},
		"verifFail": func(e *Exec, t *Thread, a []Value, g bool) (Value, bool) {
			panic(pathEnd{kind: "assert", detail: e.strArg(a[0]), site: e.callerPos(t)})
		},
	}

	stubs = map[string]stubFn{
		"fmt.Sprintf": func(e *Exec, t *Thread, a []Value, g bool) (Value, bool) {
			return done(e.sprintf(a[0].(*Str), a[1].(Slice)))
		},
		"fmt.Errorf": func(e *Exec, t *Thread, a []Value, g bool) (Value, bool) {
			// the text is opaque; the errors wrapped with %w are remembered for errors.Is/Unwrap
			res := e.opaqueError("fmt.Errorf").(Iface)
			if f, ok := a[0].(*Str); ok {
				if fs, ok := e.concreteStr(f); ok && strings.Contains(fs, "%w") {
					if args, ok := a[1].(Slice); ok {
						errT := types.Universe.Lookup("error").Type().Underlying().(*types.Interface)
						for i := 0; i < args.Len; i++ {
							if iv, ok := e.sliceElem(args, i).(Iface); ok && iv.T != nil && types.Implements(iv.T, errT) {
								o := res.V.(Ptr).Obj
								e.wrapped[o] = append(e.wrapped[o], iv)
							}
						}
					}
				}
			}
			return done(res)
		},
		"errors.Unwrap": func(e *Exec, t *Thread, a []Value, g bool) (Value, bool) {
			if iv, ok := a[0].(Iface); ok && iv.T != nil {
				if p, ok := iv.V.(Ptr); ok && p.Obj != nil && len(e.wrapped[p.Obj]) == 1 {
					return done(e.wrapped[p.Obj][0])
				}
			}
			return done(Iface{})
		},
		"fmt.Sprint":   func(e *Exec, t *Thread, a []Value, g bool) (Value, bool) { return done(e.opaqueStr("fmt.Sprint")) },
		"fmt.Sprintln": func(e *Exec, t *Thread, a []Value, g bool) (Value, bool) { return done(e.opaqueStr("fmt.Sprintln")) },
		"fmt.Println": func(e *Exec, t *Thread, a []Value, g bool) (Value, bool) {
			return done(Tuple{e.C.BVConst(64, 0), Iface{}})
		},
		"fmt.Printf": func(e *Exec, t *Thread, a []Value, g bool) (Value, bool) {
			return done(Tuple{e.C.BVConst(64, 0), Iface{}})
		},

		"math.Float32bits": func(e *Exec, t *Thread, a []Value, g bool) (Value, bool) {
			return done(e.floatBits(a[0].(*term.T)))
		},
		"math.Float64bits": func(e *Exec, t *Thread, a []Value, g bool) (Value, bool) {
			return done(e.floatBits(a[0].(*term.T)))
		},
		"math.Float32frombits": func(e *Exec, t *Thread, a []Value, g bool) (Value, bool) {
			return done(e.C.FFromBits(a[0].(*term.T)))
		},
		"math.Float64frombits": func(e *Exec, t *Thread, a []Value, g bool) (Value, bool) {
			return done(e.C.FFromBits(a[0].(*term.T)))
		},
		// math.Max / math.Min with Go's special cases (+Inf / -Inf first, then NaN, then signed zeros)
		"math.Max": func(e *Exec, t *Thread, a []Value, g bool) (Value, bool) {
			return done(e.fMaxMin(a[0].(*term.T), a[1].(*term.T), true))
		},
		"math.Min": func(e *Exec, t *Thread, a []Value, g bool) (Value, bool) {
			return done(e.fMaxMin(a[0].(*term.T), a[1].(*term.T), false))
		},
		"math.Abs":   func(e *Exec, t *Thread, a []Value, g bool) (Value, bool) { return done(e.C.FAbs(a[0].(*term.T))) },
		"math.Floor": func(e *Exec, t *Thread, a []Value, g bool) (Value, bool) { return done(e.C.FRound(a[0].(*term.T), 3)) },
		"math.Ceil":  func(e *Exec, t *Thread, a []Value, g bool) (Value, bool) { return done(e.C.FRound(a[0].(*term.T), 2)) },
		"math.Trunc": func(e *Exec, t *Thread, a []Value, g bool) (Value, bool) { return done(e.C.FRound(a[0].(*term.T), 4)) },
		"math.Round": func(e *Exec, t *Thread, a []Value, g bool) (Value, bool) { return done(e.C.FRound(a[0].(*term.T), 1)) },
		"math.RoundToEven": func(e *Exec, t *Thread, a []Value, g bool) (Value, bool) {
			return done(e.C.FRound(a[0].(*term.T), 0))
		},
		"math.IsNaN": func(e *Exec, t *Thread, a []Value, g bool) (Value, bool) { return done(e.C.FIsNaN(a[0].(*term.T))) },
		"math.IsInf": func(e *Exec, t *Thread, a []Value, g bool) (Value, bool) {
			f := a[0].(*term.T)
			sgn := e.toInt(a[1], types.Typ[types.Int])
			c := e.C
			inf := c.FPConst(64, 0x7FF0000000000000)
			ninf := c.FPConst(64, 0xFFF0000000000000)
			pos := c.FCmp(term.OpFEq, f, inf)
			neg := c.FCmp(term.OpFEq, f, ninf)
			z := c.BVConst(64, 0)
			return done(c.BOr(c.BAnd(c.Cmp(term.OpSLe, z, sgn), pos), c.BAnd(c.Cmp(term.OpSLe, sgn, z), neg)))
		},
		"math/rand.Intn":   randBelow,
		"math/rand.Int63n": randBelow,
		"math/rand.Int31n": randBelow,
		"math/rand.Float64": func(e *Exec, t *Thread, a []Value, g bool) (Value, bool) {
			if e.Cfg.RandChoice {
				// representative values instead of a symbolic float (keeps virtual time concrete)
				k := e.Choose(3, "rand")
				e.recordConcreteNondet("choice", int64(k))
				return done(e.C.F64([]float64{0, 0.5, 0.9999999}[k]))
			}
			// fresh f with 0 <= f < 1: 53 random bits / 2^53
			n := e.newNondet(64, "u64")
			m := e.C.Bin(term.OpAnd, n, e.C.BVConst(64, (1<<53)-1))
			f := e.C.FBin(term.OpFDiv, e.C.FFromInt(m, 64, false), e.C.F64(float64(uint64(1)<<53)))
			return done(f)
		},

		"(*sync.Mutex).Lock": func(e *Exec, t *Thread, a []Value, g bool) (Value, bool) {
			o := e.syncObj(a[0].(Ptr))
			if !g && e.mutexFIFO && !t.arriving {
				// FIFO policy: the arrival at Lock is a scheduling point of its own, so that the order
				// in which goroutines queue up is explored like any other interleaving
				t.arriving = true
				t.pend = &pending{kind: pkYield}
				return nil, false
			}
			if !g || t.arriving {
				t.arriving = false
				t.pend = &pending{kind: pkLock, mu: o}
				e.evSeq++
				t.lockArr = e.evSeq
				return nil, false
			}
			s := e.sync(o)
			if s.locked {
				panic("granted Lock on a locked mutex")
			}
			s.locked = true
			e.evSeq++
			s.acq = append(s.acq, lockEvent{tid: t.ID, at: e.nowT(), arr: t.lockArr, seq: e.evSeq})
			vcJoin(&t.vc, s.vc)
			e.tick(t)
			e.memVer++
			return done(nil)
		},
		"(*sync.Mutex).Unlock": func(e *Exec, t *Thread, a []Value, g bool) (Value, bool) {
			o := e.syncObj(a[0].(Ptr))
			if !g {
				t.pend = &pending{kind: pkUnlock, mu: o}
				return nil, false
			}
			s := e.sync(o)
			if !s.locked {
				panic(pathEnd{kind: "panic", detail: "fatal error: sync: unlock of unlocked mutex", site: e.where()})
			}
			s.locked = false
			e.tick(t)
			s.vc = vcCopy(t.vc)
			e.memVer++
			return done(nil)
		},
		"(*sync.RWMutex).Lock": func(e *Exec, t *Thread, a []Value, g bool) (Value, bool) {
			return stubs["(*sync.Mutex).Lock"](e, t, a, g)
		},
		"(*sync.RWMutex).Unlock": func(e *Exec, t *Thread, a []Value, g bool) (Value, bool) {
			return stubs["(*sync.Mutex).Unlock"](e, t, a, g)
		},
		"(*sync.RWMutex).RLock": func(e *Exec, t *Thread, a []Value, g bool) (Value, bool) {
			return stubs["(*sync.Mutex).Lock"](e, t, a, g)
		},
		"(*sync.RWMutex).RUnlock": func(e *Exec, t *Thread, a []Value, g bool) (Value, bool) {
			return stubs["(*sync.Mutex).Unlock"](e, t, a, g)
		},
		"(*sync.WaitGroup).Add": func(e *Exec, t *Thread, a []Value, g bool) (Value, bool) {
			o := e.syncObj(a[0].(Ptr))
			if !g {
				t.pend = &pending{kind: pkWgAdd, mu: o}
				return nil, false
			}
			s := e.sync(o)
			s.count += e.intArg(a[1])
			if s.count < 0 {
				e.goPanic("sync: negative WaitGroup counter")
			}
			e.tick(t)
			vcJoin(&s.vc, t.vc)
			e.memVer++
			return done(nil)
		},
		"(*sync.WaitGroup).Done": func(e *Exec, t *Thread, a []Value, g bool) (Value, bool) {
			o := e.syncObj(a[0].(Ptr))
			if !g {
				t.pend = &pending{kind: pkWgAdd, mu: o}
				return nil, false
			}
			s := e.sync(o)
			s.count--
			if s.count < 0 {
				e.goPanic("sync: negative WaitGroup counter")
			}
			e.tick(t)
			vcJoin(&s.vc, t.vc)
			e.memVer++
			return done(nil)
		},
		"(*sync.WaitGroup).Wait": func(e *Exec, t *Thread, a []Value, g bool) (Value, bool) {
			o := e.syncObj(a[0].(Ptr))
			if !g {
				t.pend = &pending{kind: pkWait, mu: o}
				return nil, false
			}
			s := e.sync(o)
			vcJoin(&t.vc, s.vc)
			e.tick(t)
			return done(nil)
		},

		"time.After": func(e *Exec, t *Thread, a []Value, g bool) (Value, bool) {
			tm := e.newTimer(e.toInt(a[0], types.Typ[types.Int64]))
			tm.Ch = e.newChan(1, e.timeChanType())
			return done(tm.Ch)
		},
		"time.Sleep": func(e *Exec, t *Thread, a []Value, g bool) (Value, bool) {
			return e.sleep(t, e.toInt(a[0], types.Typ[types.Int64]), g)
		},
		"time.NewTicker": func(e *Exec, t *Thread, a []Value, g bool) (Value, bool) {
			d := e.toInt(a[0], types.Typ[types.Int64])
			if !e.Branch(e.C.Cmp(term.OpSLt, e.C.BVConst(64, 0), d), "ticker") {
				e.goPanic("non-positive interval for NewTicker")
			}
			tm := e.newTimer(d)
			tm.Period = d
			tm.Ch = e.newChan(1, e.timeChanType())
			// *time.Ticker{C: ch, ...}
			tt := e.World.Pkgs["time"].Type("Ticker").Type()
			st := e.zero(tt).(*Struct)
			st.F[0] = tm.Ch
			o := e.newObj(tt, st)
			e.tickers[o] = tm
			return done(Ptr{Obj: o})
		},
		"(*time.Ticker).Stop": func(e *Exec, t *Thread, a []Value, g bool) (Value, bool) {
			p := a[0].(Ptr)
			if tm := e.tickers[p.Obj]; tm != nil {
				tm.Active = false
			}
			return done(nil)
		},
		"time.NewTimer": func(e *Exec, t *Thread, a []Value, g bool) (Value, bool) {
			tm := e.newTimer(e.toInt(a[0], types.Typ[types.Int64]))
			tm.Ch = e.newChan(1, e.timeChanType())
			tt := e.World.Pkgs["time"].Type("Timer").Type()
			st := e.zero(tt).(*Struct)
			st.F[0] = tm.Ch
			o := e.newObj(tt, st)
			e.tickers[o] = tm
			return done(Ptr{Obj: o})
		},
		"(*time.Timer).Stop": func(e *Exec, t *Thread, a []Value, g bool) (Value, bool) {
			p := a[0].(Ptr)
			was := false
			if tm := e.tickers[p.Obj]; tm != nil {
				was = tm.Active
				tm.Active = false
			}
			return done(e.C.BoolConst(was))
		},
		"(*time.Timer).Reset": func(e *Exec, t *Thread, a []Value, g bool) (Value, bool) {
			p := a[0].(Ptr)
			was := false
			if tm := e.tickers[p.Obj]; tm != nil {
				was = tm.Active
				tm.Active = true
				tm.Deadline = e.C.Bin(term.OpAdd, e.nowT(), e.toInt(a[1], types.Typ[types.Int64]))
			}
			return done(e.C.BoolConst(was))
		},
		"(*time.Ticker).Reset": func(e *Exec, t *Thread, a []Value, g bool) (Value, bool) {
			p := a[0].(Ptr)
			if tm := e.tickers[p.Obj]; tm != nil {
				d := e.toInt(a[1], types.Typ[types.Int64])
				tm.Active = true
				tm.Period = d
				tm.Deadline = e.C.Bin(term.OpAdd, e.nowT(), d)
			}
			return done(nil)
		},
		"time.AfterFunc": func(e *Exec, t *Thread, a []Value, g bool) (Value, bool) {
			tm := e.newTimer(e.toInt(a[0], types.Typ[types.Int64]))
			tm.Fn = a[1].(*Closure)
			tt := e.World.Pkgs["time"].Type("Timer").Type()
			o := e.newObj(tt, e.zero(tt))
			e.tickers[o] = tm
			return done(Ptr{Obj: o})
		},

		// wall-clock reads on the virtual clock: a Time with the monotonic flag set and ext = virtual
		// nanoseconds; Sub/Add/Before/After/Equal of package time then run themselves (pure code on
		// wall/ext). The wall-clock date of such a value is meaningless (never asked for here).
		"time.Now": func(e *Exec, t *Thread, a []Value, g bool) (Value, bool) {
			tt := e.World.Pkgs["time"].Type("Time").Type()
			st := e.zero(tt).(*Struct)
			st.F[0] = e.C.BVConst(64, 1<<63)
			st.F[1] = e.nowT()
			return done(st)
		},
		"time.Since": func(e *Exec, t *Thread, a []Value, g bool) (Value, bool) {
			st := a[0].(*Struct)
			if w := st.F[0].(*term.T); !w.IsConst() || w.Val>>63 == 0 {
				e.unsupported("time.Since of a Time that does not come from time.Now")
			}
			return done(e.C.Bin(term.OpSub, e.nowT(), st.F[1].(*term.T)))
		},
		"time.Until": func(e *Exec, t *Thread, a []Value, g bool) (Value, bool) {
			st := a[0].(*Struct)
			if w := st.F[0].(*term.T); !w.IsConst() || w.Val>>63 == 0 {
				e.unsupported("time.Until of a Time that does not come from time.Now")
			}
			return done(e.C.Bin(term.OpSub, st.F[1].(*term.T), e.nowT()))
		},
		"time.Date": func(e *Exec, t *Thread, a []Value, g bool) (Value, bool) {
			c := e.C
			for _, z := range a[3:7] {
				if zt := z.(*term.T); !zt.IsConst() || zt.Val != 0 {
					e.unsupported("time.Date with a non-zero clock part")
				}
			}
			y, m, d := a[0].(*term.T), a[1].(*term.T), a[2].(*term.T)
			k := func(v uint64) *term.T { return c.BVConst(64, v) }
			rem := func(x *term.T, n uint64) *term.T { return c.Bin(term.OpSRem, x, k(n)) }
			leap := c.BAnd(c.Eq(rem(y, 4), k(0)), c.BOr(c.BNot(c.Eq(rem(y, 100), k(0))), c.Eq(rem(y, 400), k(0))))
			dim := k(31)
			for _, mm := range []uint64{4, 6, 9, 11} {
				dim = c.Ite(c.Eq(m, k(mm)), k(30), dim)
			}
			dim = c.Ite(c.Eq(m, k(2)), c.Ite(leap, k(29), k(28)), dim)
			valid := c.BAnd(c.BAnd(c.Cmp(term.OpSLe, k(1), m), c.Cmp(term.OpSLe, m, k(12))),
				c.BAnd(c.Cmp(term.OpSLe, k(1), d), c.Cmp(term.OpSLe, d, dim)))
			// exact on valid civil dates; otherwise some different date (day+1): enough for round-trip validity tests
			tt := e.World.Pkgs["time"].Type("Time").Type()
			st := e.zero(tt).(*Struct)
			st.F[0] = y
			st.F[1] = c.Bin(term.OpOr, c.Bin(term.OpShl, m, k(32)), c.Bin(term.OpAnd, c.Ite(valid, d, c.Bin(term.OpAdd, d, k(1))), k(0xffffffff)))
			return done(st)
		},
		"(time.Time).Year": func(e *Exec, t *Thread, a []Value, g bool) (Value, bool) {
			return done(a[0].(*Struct).F[0])
		},
		"(time.Time).Month": func(e *Exec, t *Thread, a []Value, g bool) (Value, bool) {
			return done(e.C.Bin(term.OpAShr, a[0].(*Struct).F[1].(*term.T), e.C.BVConst(64, 32)))
		},
		"(time.Time).Day": func(e *Exec, t *Thread, a []Value, g bool) (Value, bool) {
			return done(e.C.SExt(e.C.Extract(a[0].(*Struct).F[1].(*term.T), 31, 0), 64))
		},

		"(*net.TCPConn).Read": netRead,
		"(*net.conn).Read":    netRead,
		"(*net.UDPConn).ReadFromUDP": func(e *Exec, t *Thread, a []Value, g bool) (Value, bool) {
			buf := a[1].(Slice)
			if e.netClosed > 0 || len(e.netDgrams) == 0 {
				return done(Tuple{e.C.BVConst(64, 0), Ptr{}, e.opaqueError("net: use of closed network connection")})
			}
			d := e.netDgrams[0]
			e.netDgrams = e.netDgrams[1:]
			var from []*term.T
			if len(e.netFrom) > 0 {
				from = e.netFrom[0]
				e.netFrom = e.netFrom[1:]
			}
			n := len(d)
			if n > buf.Len {
				n = buf.Len
			}
			for i := 0; i < n; i++ {
				e.storeElem(buf, i, d[i])
			}
			ua := e.World.Pkgs["net"].Type("UDPAddr").Type()
			st := e.zero(ua).(*Struct)
			if from != nil {
				// sender 192.0.2.<host>:<port> in 16-byte form
				ip := e.newArrayObj(types.Typ[types.Uint8], 16)
				pre := []uint64{0, 0, 0, 0, 0, 0, 0, 0, 0, 0, 0xff, 0xff, 192, 0, 2}
				for i, b := range pre {
					ip.V.(*Array).E[i] = e.C.BVConst(8, b)
				}
				ip.V.(*Array).E[15] = from[0]
				st.F[0] = Slice{Arr: ip, Len: 16, Cap: 16}
				st.F[1] = from[1]
			}
			o := e.newObj(ua, st)
			return done(Tuple{e.C.BVConst(64, uint64(n)), Ptr{Obj: o}, Iface{}})
		},
		"(*net.UDPConn).WriteToUDP": func(e *Exec, t *Thread, a []Value, g bool) (Value, bool) {
			buf := a[1].(Slice)
			if e.netFailFrom >= 0 && e.netAttempts >= e.netFailFrom {
				e.netAttempts++
				return done(Tuple{e.C.BVConst(64, 0), e.opaqueError("net: write failed (injected)")})
			}
			e.netAttempts++
			var w []*term.T
			for i := 0; i < buf.Len; i++ {
				w = append(w, e.sliceElem(buf, i).(*term.T))
			}
			e.netWrites = append(e.netWrites, w)
			e.netWriteAt = append(e.netWriteAt, e.nowT())
			e.evSeq++
			e.netWriteEv = append(e.netWriteEv, [2]int{t.ID, e.evSeq})
			return done(Tuple{e.C.BVConst(64, uint64(buf.Len)), Iface{}})
		},
		// dialling: the peer is always 192.0.2.1:3671; the connection object is an empty stub whose
		// Read/Write/Close are the stubs of this table
		"(*sync.Pool).Put": func(e *Exec, t *Thread, a []Value, g bool) (Value, bool) {
			pp := a[0].(Ptr)
			if iv, ok := a[1].(Iface); ok && iv.T == nil {
				return done(nil)
			}
			e.pools[pp.Obj] = append(e.pools[pp.Obj], a[1])
			return done(nil)
		},
		"net.ParseIP": func(e *Exec, t *Thread, a []Value, g bool) (Value, bool) {
			// documented contract, evaluated on the (concrete) text by the host's net.ParseIP:
			// nil for anything that is not an IP address, else the 16-byte form
			ip := net.ParseIP(e.strArg(a[0]))
			if ip == nil {
				return done(Slice{})
			}
			ip = ip.To16()
			arr := e.newArrayObj(types.Typ[types.Uint8], 16)
			for i := 0; i < 16; i++ {
				arr.V.(*Array).E[i] = e.C.BVConst(8, uint64(ip[i]))
			}
			return done(Slice{Arr: arr, Len: 16, Cap: 16})
		},
		"net.ResolveUDPAddr": func(e *Exec, t *Thread, a []Value, g bool) (Value, bool) {
			return done(Tuple{e.netPeerAddr("UDPAddr"), Iface{}})
		},
		"net.ResolveTCPAddr": func(e *Exec, t *Thread, a []Value, g bool) (Value, bool) {
			return done(Tuple{e.netPeerAddr("TCPAddr"), Iface{}})
		},
		"net.DialUDP": func(e *Exec, t *Thread, a []Value, g bool) (Value, bool) {
			tt := e.World.Pkgs["net"].Type("UDPConn").Type()
			return done(Tuple{Ptr{Obj: e.newObj(tt, e.zero(tt))}, Iface{}})
		},
		"net.DialTCP": func(e *Exec, t *Thread, a []Value, g bool) (Value, bool) {
			tt := e.World.Pkgs["net"].Type("TCPConn").Type()
			return done(Tuple{Ptr{Obj: e.newObj(tt, e.zero(tt))}, Iface{}})
		},
		"(*net.conn).SetDeadline": func(e *Exec, t *Thread, a []Value, g bool) (Value, bool) { return done(Iface{}) },
		"(net.IP).IsMulticast": func(e *Exec, t *Thread, a []Value, g bool) (Value, bool) {
			return done(e.C.BoolConst(false)) // the stub peer address is a unicast one
		},
		"(*net.conn).Write": func(e *Exec, t *Thread, a []Value, g bool) (Value, bool) {
			// connected socket: same log as WriteToUDP (bytes, virtual time stamp, injected failure)
			buf := a[1].(Slice)
			if e.netClosed > 0 || (e.netFailFrom >= 0 && e.netAttempts >= e.netFailFrom) {
				e.netAttempts++
				return done(Tuple{e.C.BVConst(64, 0), e.opaqueError("net: write failed (closed or injected)")})
			}
			e.netAttempts++
			var w []*term.T
			for i := 0; i < buf.Len; i++ {
				w = append(w, e.sliceElem(buf, i).(*term.T))
			}
			e.netWrites = append(e.netWrites, w)
			e.netWriteAt = append(e.netWriteAt, e.nowT())
			e.evSeq++
			e.netWriteEv = append(e.netWriteEv, [2]int{t.ID, e.evSeq})
			return done(Tuple{e.C.BVConst(64, uint64(buf.Len)), Iface{}})
		},
		"(*net.UDPConn).Close": netClose,
		"(*net.TCPConn).Close": netClose,
		"(*net.conn).Close":    netClose,

		"errors.Is": func(e *Exec, t *Thread, a []Value, g bool) (Value, bool) {
			// identity along the chain of errors wrapped by fmt.Errorf("%w") (Is methods are not consulted)
			target := a[1].(Iface)
			var walk func(err Iface, depth int) *term.T
			walk = func(err Iface, depth int) *term.T {
				r := e.ifaceEq(err, target)
				if p, ok := err.V.(Ptr); ok && p.Obj != nil && depth < 8 {
					for _, w := range e.wrapped[p.Obj] {
						r = e.C.BOr(r, walk(w, depth+1))
					}
				}
				return r
			}
			return done(walk(a[0].(Iface), 0))
		},
		"(*strings.Builder).copyCheck": func(e *Exec, t *Thread, a []Value, g bool) (Value, bool) { return done(nil) },
		"(*strings.Builder).String": func(e *Exec, t *Thread, a []Value, g bool) (Value, bool) {
			st := e.load(a[0].(Ptr)).(*Struct)
			buf := st.F[1].(Slice)
			out := make([]*term.T, buf.Len)
			for i := range out {
				out[i] = e.sliceElem(buf, i).(*term.T)
			}
			return done(&Str{B: out})
		},

		"reflect.TypeOf": func(e *Exec, t *Thread, a []Value, g bool) (Value, bool) {
			iv := a[0].(Iface)
			if iv.T == nil {
				return done(Iface{})
			}
			return done(e.rtypeIface(iv.T))
		},
		"reflect.New": func(e *Exec, t *Thread, a []Value, g bool) (Value, bool) {
			rt := a[0].(Iface).V.(*RType)
			o := e.newObj(rt.T, e.zero(rt.T))
			return done(&RValue{P: Ptr{Obj: o}, T: types.NewPointer(rt.T)})
		},
		"reflect.ValueOf": func(e *Exec, t *Thread, a []Value, g bool) (Value, bool) {
			iv := a[0].(Iface)
			if iv.T == nil {
				return done(&RValue{})
			}
			if m, isMap := iv.V.(*Map); isMap {
				return done(&RValue{T: iv.T, V: m})
			}
			p, ok := iv.V.(Ptr)
			if !ok {
				e.unsupported("reflect.ValueOf of a non-pointer value")
			}
			return done(&RValue{P: p, T: iv.T})
		},
		"(reflect.Value).MapKeys": func(e *Exec, t *Thread, a []Value, g bool) (Value, bool) {
			rv := a[0].(*RValue)
			m, ok := rv.V.(*Map)
			if !ok || rv.T == nil {
				e.unsupported("reflect.Value.MapKeys of a non-map")
			}
			mt := rv.T.Underlying().(*types.Map)
			n := 0
			if m != nil {
				n = len(m.Keys)
			}
			vt := e.World.Pkgs["reflect"].Type("Value").Type()
			arr := e.newArrayObj(vt, n)
			for i := 0; i < n; i++ {
				arr.V.(*Array).E[i] = &RValue{T: mt.Key(), V: m.Keys[i]}
			}
			return done(Slice{Arr: arr, Len: n, Cap: n})
		},
		"(reflect.Value).String": func(e *Exec, t *Thread, a []Value, g bool) (Value, bool) {
			rv := a[0].(*RValue)
			if s, ok := rv.V.(*Str); ok {
				return done(s)
			}
			e.unsupported("reflect.Value.String of a non-string value")
			return done(nil)
		},
		"internal/bytealg.MakeNoZero": func(e *Exec, t *Thread, a []Value, g bool) (Value, bool) {
			n := int(e.intArg(a[0]))
			arr := e.newArrayObj(types.Typ[types.Uint8], n) // zeroed: a superset of "no promise about the content"
			return done(Slice{Arr: arr, Len: n, Cap: n})
		},
		"reflect.Indirect": func(e *Exec, t *Thread, a []Value, g bool) (Value, bool) {
			rv := a[0].(*RValue)
			pt, ok := rv.T.Underlying().(*types.Pointer)
			if !ok {
				return done(rv)
			}
			return done(&RValue{T: pt.Elem(), Addr: rv.P, Adr: true})
		},
		"(reflect.Value).Elem": func(e *Exec, t *Thread, a []Value, g bool) (Value, bool) {
			rv := a[0].(*RValue)
			pt, ok := rv.T.Underlying().(*types.Pointer)
			if !ok {
				e.unsupported("reflect.Value.Elem of a non-pointer")
			}
			return done(&RValue{T: pt.Elem(), Addr: rv.P, Adr: true})
		},
		"(reflect.Value).Addr": func(e *Exec, t *Thread, a []Value, g bool) (Value, bool) {
			rv := a[0].(*RValue)
			if !rv.Adr {
				e.goPanic("reflect.Value.Addr of unaddressable value")
			}
			return done(&RValue{T: types.NewPointer(rv.T), P: rv.Addr})
		},
		"reflect.SliceOf": func(e *Exec, t *Thread, a []Value, g bool) (Value, bool) {
			rt := a[0].(Iface).V.(*RType)
			return done(e.rtypeIface(types.NewSlice(rt.T)))
		},
		"reflect.MakeSlice": func(e *Exec, t *Thread, a []Value, g bool) (Value, bool) {
			rt := a[0].(Iface).V.(*RType)
			st, ok := rt.T.Underlying().(*types.Slice)
			if !ok {
				e.goPanic("reflect.MakeSlice of non-slice type")
			}
			n, c := int(e.intArg(a[1])), int(e.intArg(a[2]))
			if n < 0 || c < n || c > 1<<16 {
				e.unsupported("reflect.MakeSlice(%d, %d)", n, c)
			}
			arr := e.newArrayObj(st.Elem(), c)
			return done(&RValue{T: rt.T, S: Slice{Arr: arr, Len: n, Cap: c}})
		},
		"(reflect.Value).IsValid": func(e *Exec, t *Thread, a []Value, g bool) (Value, bool) {
			return done(e.C.BoolConst(a[0].(*RValue).T != nil))
		},
		"(reflect.Value).Len": func(e *Exec, t *Thread, a []Value, g bool) (Value, bool) {
			rv := a[0].(*RValue)
			if rv.T == nil {
				e.goPanic("reflect: call of reflect.Value.Len on zero Value")
			}
			if _, ok := rv.T.Underlying().(*types.Slice); !ok {
				e.unsupported("reflect.Value.Len of %v", rv.T)
			}
			return done(e.C.BVConst(64, uint64(rv.S.Len)))
		},
		"(reflect.Value).Index": func(e *Exec, t *Thread, a []Value, g bool) (Value, bool) {
			rv := a[0].(*RValue)
			if rv.T == nil {
				e.goPanic("reflect: call of reflect.Value.Index on zero Value")
			}
			st, ok := rv.T.Underlying().(*types.Slice)
			if !ok {
				e.unsupported("reflect.Value.Index of %v", rv.T)
			}
			i := int(e.intArg(a[1]))
			if i < 0 || i >= rv.S.Len {
				e.goPanic("reflect: slice index out of range")
			}
			return done(&RValue{T: st.Elem(), Addr: Ptr{Obj: rv.S.Arr, Path: []int{rv.S.Off + i}}, Adr: true})
		},
		"reflect.Zero": func(e *Exec, t *Thread, a []Value, g bool) (Value, bool) {
			rt := a[0].(Iface).V.(*RType)
			return done(&RValue{T: rt.T, Zero: true})
		},
		"(reflect.Value).Kind": func(e *Exec, t *Thread, a []Value, g bool) (Value, bool) {
			rv := a[0].(*RValue)
			k := uint64(0)
			if rv.T != nil {
				switch u := rv.T.Underlying().(type) {
				case *types.Struct:
					k = 25
				case *types.Pointer:
					k = 22
				case *types.Slice:
					k = 23
				case *types.Array:
					k = 17
				case *types.Map:
					k = 21
				case *types.Interface:
					k = 20
				case *types.Basic:
					switch u.Kind() {
					case types.Bool:
						k = 1
					case types.Int, types.Int8, types.Int16, types.Int32, types.Int64:
						k = 2 + uint64(u.Kind()-types.Int)
					case types.Uint, types.Uint8, types.Uint16, types.Uint32, types.Uint64, types.Uintptr:
						k = 7 + uint64(u.Kind()-types.Uint)
					case types.Float32:
						k = 13
					case types.Float64:
						k = 14
					case types.String:
						k = 24
					default:
						e.unsupported("reflect.Value.Kind of %v", rv.T)
					}
				default:
					e.unsupported("reflect.Value.Kind of %v", rv.T)
				}
			}
			return done(e.C.BVConst(64, k))
		},
		"(reflect.Value).Set": func(e *Exec, t *Thread, a []Value, g bool) (Value, bool) {
			rv, src := a[0].(*RValue), a[1].(*RValue)
			if !rv.Adr {
				e.goPanic("reflect: reflect.Value.Set using unaddressable value")
			}
			if !src.Zero || !types.Identical(rv.T, src.T) {
				e.unsupported("reflect.Value.Set with anything but reflect.Zero of the same type")
			}
			e.store(rv.Addr, e.zero(rv.T))
			return done(nil)
		},
		"(reflect.Value).Type": func(e *Exec, t *Thread, a []Value, g bool) (Value, bool) {
			return done(e.rtypeIface(a[0].(*RValue).T))
		},
		"(reflect.Value).Interface": func(e *Exec, t *Thread, a []Value, g bool) (Value, bool) {
			rv := a[0].(*RValue)
			if _, isPtr := rv.T.Underlying().(*types.Pointer); !isPtr {
				e.unsupported("reflect.Value.Interface of a non-pointer value")
			}
			return done(Iface{T: rv.T, V: rv.P})
		},

		// x/text ISO-8859-1 codec
		"(*golang.org/x/text/encoding/charmap.Charmap).NewEncoder": func(e *Exec, t *Thread, a []Value, g bool) (Value, bool) {
			return done(e.newCodecObj(a[0]))
		},
		"(*golang.org/x/text/encoding/charmap.Charmap).NewDecoder": func(e *Exec, t *Thread, a []Value, g bool) (Value, bool) {
			return done(e.newCodecObj(a[0]))
		},
		"(*golang.org/x/text/encoding.Encoder).Bytes": func(e *Exec, t *Thread, a []Value, g bool) (Value, bool) {
			return done(e.latin1Encode(e.codecOf(a[0]), a[1].(Slice)))
		},
		"(*golang.org/x/text/encoding.Decoder).Bytes": func(e *Exec, t *Thread, a []Value, g bool) (Value, bool) {
			return done(e.latin1Decode(e.codecOf(a[0]), a[1].(Slice)))
		},

		"internal/bytealg.IndexByteString": func(e *Exec, t *Thread, a []Value, g bool) (Value, bool) {
			return done(e.indexByte(e.strBytes(a[0].(*Str)), a[1].(*term.T)))
		},
		"internal/bytealg.IndexByte": func(e *Exec, t *Thread, a []Value, g bool) (Value, bool) {
			s := a[0].(Slice)
			bs := make([]*term.T, s.Len)
			for i := range bs {
				bs[i] = e.sliceElem(s, i).(*term.T)
			}
			return done(e.indexByte(bs, a[1].(*term.T)))
		},
		"internal/bytealg.Equal": func(e *Exec, t *Thread, a []Value, g bool) (Value, bool) {
			x, y := a[0].(Slice), a[1].(Slice)
			if x.Len != y.Len {
				return done(e.C.False)
			}
			r := e.C.True
			for i := 0; i < x.Len; i++ {
				r = e.C.BAnd(r, e.C.Eq(e.sliceElem(x, i).(*term.T), e.sliceElem(y, i).(*term.T)))
			}
			return done(r)
		},
		"internal/bytealg.CountString": func(e *Exec, t *Thread, a []Value, g bool) (Value, bool) {
			bs := e.strBytes(a[0].(*Str))
			r := e.C.BVConst(64, 0)
			for _, b := range bs {
				r = e.C.Bin(term.OpAdd, r, e.C.Ite(e.C.Eq(b, a[1].(*term.T)), e.C.BVConst(64, 1), e.C.BVConst(64, 0)))
			}
			return done(r)
		},
		"strconv.syntaxError": func(e *Exec, t *Thread, a []Value, g bool) (Value, bool) {
			return done(e.numError("strconv.ErrSyntax"))
		},
		"strconv.rangeError": func(e *Exec, t *Thread, a []Value, g bool) (Value, bool) {
			return done(e.numError("strconv.ErrRange"))
		},
		"strconv.baseError": func(e *Exec, t *Thread, a []Value, g bool) (Value, bool) {
			return done(e.numError("strconv.ErrBase"))
		},
		"strconv.bitSizeError": func(e *Exec, t *Thread, a []Value, g bool) (Value, bool) {
			return done(e.numError("strconv.ErrBitSize"))
		},
		"strings.Clone":              func(e *Exec, t *Thread, a []Value, g bool) (Value, bool) { return done(a[0]) },
		"internal/stringslite.Clone": func(e *Exec, t *Thread, a []Value, g bool) (Value, bool) { return done(a[0]) },
	}
}

// atomicOp: sync/atomic operations are scheduling points and synchronise (acquire+release) on the address.
func atomicOp(f func(e *Exec, p Ptr, a []Value) Value) stubFn {
	return func(e *Exec, t *Thread, a []Value, g bool) (Value, bool) {
		if !g {
			t.pend = &pending{kind: pkYield}
			return nil, false
		}
		p := a[0].(Ptr)
		if p.IsNil() {
			e.goPanic("invalid memory address or nil pointer dereference")
		}
		st := e.sync(e.syncObj(p))
		vcJoin(&t.vc, st.vc)
		e.tick(t)
		saved := e.raceCheck
		e.raceCheck = false // atomic accesses do not race with each other
		r := f(e, p, a)
		e.raceCheck = saved
		st.vc = vcCopy(t.vc)
		e.memVer++
		return done(r)
	}
}

func init() {
	load := atomicOp(func(e *Exec, p Ptr, a []Value) Value { return e.load(p) })
	store := atomicOp(func(e *Exec, p Ptr, a []Value) Value { e.store(p, a[1]); return nil })
	add := atomicOp(func(e *Exec, p Ptr, a []Value) Value {
		n := e.C.Bin(term.OpAdd, e.load(p).(*term.T), a[1].(*term.T))
		e.store(p, n)
		return n
	})
	swap := atomicOp(func(e *Exec, p Ptr, a []Value) Value {
		old := e.load(p)
		e.store(p, a[1])
		return old
	})
	cas := atomicOp(func(e *Exec, p Ptr, a []Value) Value {
		cur := e.load(p)
		var eq *term.T
		switch c := cur.(type) {
		case *term.T:
			eq = e.C.Eq(c, a[1].(*term.T))
		case Ptr:
			eq = e.C.BoolConst(ptrEq(c, a[1].(Ptr)))
		default:
			e.unsupported("CompareAndSwap on %T", cur)
		}
		if e.Branch(eq, "cas") {
			e.store(p, a[2])
			return e.C.True
		}
		return e.C.False
	})
	for _, ty := range []string{"Int32", "Int64", "Uint32", "Uint64", "Uintptr", "Pointer"} {
		stubs["sync/atomic.Load"+ty] = load
		stubs["sync/atomic.Store"+ty] = store
		stubs["sync/atomic.Swap"+ty] = swap
		stubs["sync/atomic.CompareAndSwap"+ty] = cas
		if ty != "Pointer" {
			stubs["sync/atomic.Add"+ty] = add
		}
	}
}

// mutexField resolves a sync.Mutex field of the struct an interface value points to, by name.
func (e *Exec) mutexField(v Value, name string) (Ptr, int) {
	iv := v.(Iface)
	p, ok := iv.V.(Ptr)
	if !ok || p.IsNil() {
		e.unsupported("verifLockLogField needs a pointer to a struct")
	}
	pt, ok := iv.T.Underlying().(*types.Pointer)
	if !ok {
		e.unsupported("verifLockLogField needs a pointer to a struct")
	}
	st, ok := pt.Elem().Underlying().(*types.Struct)
	if !ok {
		e.unsupported("verifLockLogField needs a pointer to a struct")
	}
	for i := 0; i < st.NumFields(); i++ {
		if st.Field(i).Name() == name {
			return p, i
		}
	}
	e.unsupported("struct %v has no field %s (harness oracle needs the send lock)", pt.Elem(), name)
	return Ptr{}, 0
}

// netPeerAddr builds *net.UDPAddr / *net.TCPAddr {192.0.2.1, 3671}.
func (e *Exec) netPeerAddr(typ string) Ptr {
	ua := e.World.Pkgs["net"].Type(typ).Type()
	st := e.zero(ua).(*Struct)
	ip := e.newArrayObj(types.Typ[types.Uint8], 16)
	for i, b := range []uint64{0, 0, 0, 0, 0, 0, 0, 0, 0, 0, 0xff, 0xff, 192, 0, 2, 1} {
		ip.V.(*Array).E[i] = e.C.BVConst(8, b)
	}
	st.F[0] = Slice{Arr: ip, Len: 16, Cap: 16}
	st.F[1] = e.C.BVConst(64, 3671)
	return Ptr{Obj: e.newObj(ua, st)}
}

// randBelow models math/rand.Intn / Int63n / Int31n: an arbitrary r with 0 <= r < n (the documented
// range; n <= 0 panics like the library). With RandChoice the value is one of {0, n/2, n-1}, which keeps
// virtual time concrete.
func randBelow(e *Exec, t *Thread, a []Value, g bool) (Value, bool) {
	n := a[0].(*term.T)
	w := n.Sort.W
	c := e.C
	if !e.Branch(c.Cmp(term.OpSLt, c.BVConst(w, 0), n), "rand.n") {
		e.goPanic("invalid argument to Intn")
	}
	if e.Cfg.RandChoice {
		k := e.Choose(3, "rand")
		e.recordConcreteNondet("choice", int64(k))
		switch k {
		case 0:
			return done(c.BVConst(w, 0))
		case 1:
			return done(c.Bin(term.OpUDiv, n, c.BVConst(w, 2)))
		}
		return done(c.Bin(term.OpSub, n, c.BVConst(w, 1)))
	}
	r := e.newNondet(w, "u64")
	e.Assume(c.BAnd(c.Cmp(term.OpSLe, c.BVConst(w, 0), r), c.Cmp(term.OpSLt, r, n)))
	return done(r)
}

func netClose(e *Exec, t *Thread, a []Value, g bool) (Value, bool) {
	e.netClosed++
	return done(Iface{})
}

// netRead models Read on a stream socket: the peer's bytes arrive in arbitrary segments. With
// a cut budget c, a Read returns either everything that is left or (if cuts remain) a
// nondeterministically chosen shorter prefix; in dribble mode every Read returns one byte.
func netRead(e *Exec, t *Thread, a []Value, g bool) (Value, bool) {
	buf := a[1].(Slice)
	if len(e.netStream) == 0 || e.netClosed > 0 {
		eof := e.World.Pkgs["io"].Var("EOF")
		return done(Tuple{e.C.BVConst(64, 0), e.load(Ptr{Obj: e.globalObj(eof)})})
	}
	max := len(e.netStream)
	if buf.Len < max {
		max = buf.Len
	}
	n := max
	switch {
	case e.netDribble:
		n = 1
	case e.netCuts > 0 && max > 1:
		k := e.Choose(max, "segment") // 0: no cut, k: cut after k bytes
		e.recordConcreteNondet("choice", int64(k))
		if k > 0 {
			n = k
			e.netCuts--
		}
	}
	for i := 0; i < n; i++ {
		e.storeElem(buf, i, e.netStream[i])
	}
	e.netStream = e.netStream[n:]
	return done(Tuple{e.C.BVConst(64, uint64(n)), Iface{}})
}

func (e *Exec) mentionsGarbage(t *term.T) bool {
	seen := map[int]bool{}
	var rec func(x *term.T) bool
	rec = func(x *term.T) bool {
		if x.Op == term.OpConst || seen[x.ID] {
			return false
		}
		seen[x.ID] = true
		if x.Op == term.OpVar {
			return e.garbage[x.Name]
		}
		for _, a := range x.Args {
			if rec(a) {
				return true
			}
		}
		return false
	}
	return rec(t)
}

// ifaceTarget loads the value an interface holding a pointer points to.
func (e *Exec) ifaceTarget(v Value) Value {
	iv := v.(Iface)
	p, ok := iv.V.(Ptr)
	if !ok {
		return iv.V
	}
	return e.load(p)
}

func (e *Exec) ifaceElemType(v Value) types.Type {
	iv := v.(Iface)
	if pt, ok := iv.T.Underlying().(*types.Pointer); ok {
		return pt.Elem()
	}
	return iv.T
}

// sameBits: deep equality with floats compared as SMT '=' (all NaNs equal, +0 != -0).
func (e *Exec) sameBits(a, b Value) *term.T {
	switch x := a.(type) {
	case *term.T:
		return e.C.Eq(x, b.(*term.T))
	case *Struct:
		y := b.(*Struct)
		r := e.C.True
		for i := range x.F {
			r = e.C.BAnd(r, e.sameBits(x.F[i], y.F[i]))
		}
		return r
	case *Array:
		y := b.(*Array)
		r := e.C.True
		for i := range x.E {
			r = e.C.BAnd(r, e.sameBits(x.E[i], y.E[i]))
		}
		return r
	case *Str:
		return e.strEq(x, b.(*Str))
	}
	e.unsupported("verifSame on %T", a)
	return nil
}

func (e *Exec) numError(tag string) Value {
	pkg := e.World.Pkgs["strconv"]
	typ := pkg.Type("NumError").Type()
	st := e.zero(typ).(*Struct)
	st.F[0] = e.opaqueStr("func")
	st.F[1] = e.opaqueStr("num")
	// the package's own sentinel (ErrRange, ErrSyntax, ...), so that comparisons with it - in strconv
	// itself and in callers - see the same object
	if g := pkg.Var(strings.TrimPrefix(tag, "strconv.")); g != nil {
		st.F[2] = e.load(Ptr{Obj: e.globalObj(g)})
	} else {
		st.F[2] = e.opaqueError(tag)
	}
	o := e.newObj(typ, st)
	return Ptr{Obj: o}
}

func (e *Exec) timeChanType() types.Type {
	tt := e.World.Pkgs["time"].Type("Time").Type()
	return types.NewChan(types.SendRecv, tt)
}

func (e *Exec) callerPos(t *Thread) string {
	if len(t.Frames) == 0 {
		return ""
	}
	f := e.top(t)
	if f.Block != nil && f.IP < len(f.Block.Instrs) {
		return e.posOf(f.Block.Instrs[f.IP])
	}
	return ""
}

func (e *Exec) sleep(t *Thread, d *term.T, g bool) (Value, bool) {
	if !g {
		if t.pend != nil && t.pend.kind == pkSleep {
			return nil, false
		}
		tm := e.newTimer(d)
		tm.Sleeper = t
		t.pend = &pending{kind: pkSleep, timer: tm}
		t.sleepTimer = tm
		return nil, false
	}
	t.sleepTimer = nil
	e.tick(t)
	return done(nil)
}

// floatBits implements math.Float32bits / Float64bits.
func (e *Exec) fMaxMin(x, y *term.T, max bool) *term.T {
	c := e.C
	inf := c.F64(math.Inf(1))
	nan := c.F64(math.NaN())
	zero := c.F64(0)
	if !max {
		inf = c.F64(math.Inf(-1))
	}
	lt := func(a, b *term.T) *term.T { return c.FCmp(term.OpFLt, a, b) }
	var pick, zeros *term.T
	if max {
		zeros = c.FBin(term.OpFAdd, x, y) // (-0)+(+0) = +0, (-0)+(-0) = -0
	} else {
		zeros = c.FNeg(c.FBin(term.OpFAdd, c.FNeg(x), c.FNeg(y)))
	}
	eq := c.Ite(c.FCmp(term.OpFEq, x, zero), zeros, x)
	if max {
		pick = c.Ite(lt(x, y), y, c.Ite(lt(y, x), x, eq))
	} else {
		pick = c.Ite(lt(x, y), x, c.Ite(lt(y, x), y, eq))
	}
	isInf := c.BOr(c.FCmp(term.OpFEq, x, inf), c.FCmp(term.OpFEq, y, inf))
	isNaN := c.BOr(c.FIsNaN(x), c.FIsNaN(y))
	return c.Ite(isInf, inf, c.Ite(isNaN, nan, pick))
}

func (e *Exec) floatBits(f *term.T) *term.T {
	if b := e.C.FBitsOf(f); b != nil {
		return b
	}
	// arithmetic result: fresh bit-vector v with to_fp(v) = f
	v := e.newNondet(f.Sort.W, fmt.Sprintf("u%d", f.Sort.W))
	e.nondets[len(e.nondets)-1].Kind = "aux"
	e.Assume(e.C.Eq(e.C.FFromBits(v), f))
	return v
}

func (e *Exec) indexByte(bs []*term.T, c *term.T) *term.T {
	r := e.C.BVConst(64, ^uint64(0))
	for i := len(bs) - 1; i >= 0; i-- {
		r = e.C.Ite(e.C.Eq(bs[i], c), e.C.BVConst(64, uint64(i)), r)
	}
	return r
}

// latin1Encode: input is UTF-8 bytes of a Go string; each rune of the character map's repertoire
// becomes one byte, any other is an error (ISO 8859-1: the runes up to 0xFF).
func (e *Exec) latin1Encode(cd *codec, in Slice) Value {
	var rs []*term.T
	if in.Arr != nil && in.Arr.Lazy != nil {
		rs = e.strRunes(in.Arr.Lazy)
	} else {
		bs := make([]*term.T, in.Len)
		for i := range bs {
			bs[i] = e.sliceElem(in, i).(*term.T)
		}
		rs = e.strRunes(&Str{B: bs})
	}
	out := make([]*term.T, 0, len(rs))
	for _, r := range rs {
		// x/text replaces nothing: runes beyond the repertoire are an error (incl. U+FFFD from invalid UTF-8)
		ok, b := cd.encodeRune(e, r)
		if !e.Branch(ok, "latin1") {
			return Tuple{Slice{}, e.opaqueError("encoding: rune not supported by encoding")}
		}
		out = append(out, b)
	}
	obj := e.newArrayObj(types.Typ[types.Uint8], len(out))
	for i, b := range out {
		obj.V.(*Array).E[i] = b
	}
	return Tuple{Slice{Arr: obj, Len: len(out), Cap: len(out)}, Iface{}}
}

// latin1Decode: every byte becomes the rune the character map assigns to it (ISO 8859-1: rune b), UTF-8 encoded.
func (e *Exec) latin1Decode(cd *codec, in Slice) Value {
	rs := make([]*term.T, in.Len)
	for i := range rs {
		rs[i] = cd.decodeRune(e, e.sliceElem(in, i).(*term.T))
	}
	str := &Str{R: rs, Runes: true}
	if !e.allASCII(str) {
		obj := e.newObj(nil, &Array{})
		obj.Lazy = str
		return Tuple{Slice{Arr: obj, Len: len(rs), Cap: len(rs)}, Iface{}}
	}
	bs := e.strBytes(str)
	obj := e.newArrayObj(types.Typ[types.Uint8], len(bs))
	for i, b := range bs {
		obj.V.(*Array).E[i] = b
	}
	return Tuple{Slice{Arr: obj, Len: len(bs), Cap: len(bs)}, Iface{}}
}

// formats made of literal text and %d / %0Nd verbs
var sprintfDecimalOnly = regexp.MustCompile(`^([^%]|%(0[0-9])?d)*$`)

// sprintf formats with a concrete format string made of literals and %d verbs
// over small unsigned integers; anything else is an opaque string.
func (e *Exec) sprintf(format *Str, args Slice) Value {
	fs, ok := e.concreteStr(format)
	if !ok {
		return e.opaqueStr("fmt.Sprintf")
	}
	if !sprintfDecimalOnly.MatchString(fs) || !strings.Contains(fs, "%") {
		return e.opaqueStr("fmt.Sprintf:" + fs)
	}
	var out []*term.T
	ai := 0
	for i := 0; i < len(fs); i++ {
		if fs[i] == '%' {
			// %d or %0Nd: zero padding to N digits
			j, width := i+1, 0
			for fs[j] >= '0' && fs[j] <= '9' {
				width = width*10 + int(fs[j]-'0')
				j++
			}
			if ai >= args.Len {
				return e.opaqueStr("fmt.Sprintf:" + fs)
			}
			iv := e.sliceElem(args, ai).(Iface)
			ai++
			t, ok := iv.V.(*term.T)
			if !ok || t.Sort.K != term.BV || isSigned(iv.T) {
				return e.opaqueStr("fmt.Sprintf:" + fs)
			}
			var v *term.T
			if t.Sort.W <= 16 {
				v = e.C.ZExt(t, 32)
			} else {
				// a wider unsigned value is rendered when it is known to stay below 100000
				if !e.Branch(e.C.Cmp(term.OpULt, t, e.C.BVConst(t.Sort.W, 100000)), "dec.range") {
					return e.opaqueStr("fmt.Sprintf:" + fs)
				}
				v = e.C.Extract(t, 31, 0)
			}
			ds := e.decimal(v)
			for k := len(ds); k < width; k++ {
				out = append(out, e.C.BVConst(8, '0'))
			}
			out = append(out, ds...)
			i = j
			continue
		}
		out = append(out, e.C.BVConst(8, uint64(fs[i])))
	}
	return &Str{B: out}
}

// decimal renders an unsigned value < 100000 in decimal, forking on the digit count.
func (e *Exec) decimal(v *term.T) []*term.T {
	c := e.C
	k := func(x uint64) *term.T { return c.BVConst(32, x) }
	digit := func(div uint64) *term.T {
		d := c.Bin(term.OpURem, c.Bin(term.OpUDiv, v, k(div)), k(10))
		return c.Bin(term.OpAdd, c.Extract(d, 7, 0), c.BVConst(8, '0'))
	}
	n := 5
	switch {
	case e.Branch(c.Cmp(term.OpULt, v, k(10)), "dec"):
		n = 1
	case e.Branch(c.Cmp(term.OpULt, v, k(100)), "dec"):
		n = 2
	case e.Branch(c.Cmp(term.OpULt, v, k(1000)), "dec"):
		n = 3
	case e.Branch(c.Cmp(term.OpULt, v, k(10000)), "dec"):
		n = 4
	}
	var out []*term.T
	div := uint64(1)
	for i := 1; i < n; i++ {
		div *= 10
	}
	for i := 0; i < n; i++ {
		out = append(out, digit(div))
		div /= 10
	}
	return out
}
