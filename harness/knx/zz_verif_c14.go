//go:build verif

package knx

import (
	"container/list"
	"time"

	"github.com/vapourismo/knx-go/knx/cemi"
	"github.com/vapourismo/knx-go/knx/knxnet"
)

func init() {
	verifHarnesses["HarnessC14Step"] = HarnessC14Step
	verifHarnesses["HarnessC14Run"] = HarnessC14Run
}

var c14Msgs = [8]cemi.Message{&cemi.LDataInd{}, &cemi.LDataInd{}, &cemi.LDataInd{}, &cemi.LDataInd{}, &cemi.LDataInd{}, &cemi.LDataInd{}, &cemi.LDataInd{}, &cemi.LDataInd{}}

func c14Retained(r *Router) []cemi.Message {
	var out []cemi.Message
	for e := r.retainer.Front(); e != nil; e = e.Next() {
		out = append(out, e.Value.(cemi.Message))
	}
	return out
}

// HarnessC14Step: a = {R retain count, r retained before, mode: 0 Send succeeds, 1 Send fails,
// 2 lost indication, 3 lost indication with the k-th retransmission failing}. One real step from
// an arbitrary retained history (messages are distinct objects).
func HarnessC14Step(a []int) {
	R, r, mode := a[0], a[1], a[2]
	sock := newVSock()
	router := &Router{sock: sock, config: RouterConfig{RetainCount: uint(R)}, inbound: make(chan cemi.Message), retainer: list.New()}
	old := make([]cemi.Message, r)
	for i := 0; i < r; i++ {
		old[i] = c14Msgs[i]
		router.retainer.PushBack(c14Msgs[i])
	}
	switch mode {
	case 0, 1:
		sock.failSend = mode == 1
		m := c14Msgs[7]
		err := router.Send(m)
		alive := verifQuiesce()
		verifAssert("C14.step.no_goroutine_left", alive == 0)
		got := c14Retained(router)
		if mode == 1 {
			verifCover("C14.step.sendfail")
			verifAssert("C14.step.failed_not_retained", err != nil && len(got) == r)
			for i := range got {
				verifAssert("C14.step.failed_history_kept", got[i] == old[i])
			}
			return
		}
		verifCover("C14.step.sent")
		want := append(append([]cemi.Message{}, old...), m)
		if len(want) > R {
			want = want[len(want)-R:]
		}
		verifAssert("C14.step.sent_one", err == nil && len(sock.log) == 1 && sock.log[0].(*knxnet.RoutingInd).Payload == m)
		verifAssert("C14.step.bounded_history", len(got) == len(want) && len(got) <= R)
		for i := range got {
			verifAssert("C14.step.history", got[i] == want[i])
		}
		// the client can still send
		verifAssert("C14.step.still_usable", router.Send(c14Msgs[6]) == nil)
	default:
		count := nondetU16()
		if mode == 3 {
			sock.failFrom = nondetChoice(r + 1)
		}
		router.resendLost(count)
		alive := verifQuiesce()
		verifAssert("C14.lost.no_goroutine_left", alive == 0)
		k := int(count)
		if k > r {
			k = r
		}
		verifObserve("k", k)
		if mode == 2 {
			verifCover("C14.lost.resent")
			verifAssert("C14.lost.exactly_last_k", len(sock.log) == k)
			for i := 0; i < k; i++ {
				verifAssert("C14.lost.original_order", sock.log[i].(*knxnet.RoutingInd).Payload == old[r-k+i])
			}
			got := c14Retained(router)
			verifAssert("C14.lost.history_len", len(got) == r)
			for i := range got {
				verifAssert("C14.lost.history", got[i] == old[i])
			}
		} else {
			verifCover("C14.lost.partial")
			// failed retransmissions are not retained again, successful ones are, in order
			for i, f := range sock.log {
				verifAssert("C14.lost.original_order", f.(*knxnet.RoutingInd).Payload == old[r-k+i])
			}
			verifAssert("C14.lost.bounded_history", router.retainer.Len() <= R)
		}
		sock.failFrom = -1
		verifAssert("C14.lost.still_usable", router.Send(c14Msgs[6]) == nil)
	}
}

// HarnessC14Run: a = {scenario}: the real serve goroutine with senders, indications, a slow or
// absent reader and Close. No deadlock, every received routing indication reaches Inbound
// exactly once (while the reader keeps reading), Inbound is closed after Close.
func HarnessC14Run(a []int) {
	scenario := a[0]
	sock := newVSock()
	router := &Router{sock: sock, config: RouterConfig{RetainCount: 2}, inbound: make(chan cemi.Message), retainer: list.New(),
		postSendPause: 5 * time.Millisecond}
	serveDone := false
	go func() {
		router.serve()
		serveDone = true
	}()
	var got []cemi.Message
	readerDone := false
	reader := func() {
		for m := range router.Inbound() {
			got = append(got, m)
		}
		readerDone = true
	}
	if scenario != 2 && scenario != 3 {
		go reader()
	}
	sent := 0
	sender := func(ms ...cemi.Message) {
		for _, m := range ms {
			router.Send(m)
			sent++
		}
	}
	x1, x2 := c14Msgs[4], c14Msgs[5]
	switch scenario {
	case 0: // traffic, a lost indication, a busy indication, then Close
		go sender(c14Msgs[0], c14Msgs[1])
		sock.in <- &knxnet.RoutingInd{Payload: x1}
		sock.in <- &knxnet.RoutingLost{Count: nondetU16()}
		sock.in <- &knxnet.RoutingInd{Payload: x2}
		sock.in <- &knxnet.RoutingBusy{WaitTime: 10 * time.Millisecond, Control: uint16(nondetChoice(2))}
		go sender(c14Msgs[2])
		verifSleep(int64(time.Second))
		close(sock.in)
		verifQuiesce()
		verifAssert("C14.run.sends_return", sent == 3)
	case 1: // two busy indications back to back while senders are active
		go sender(c14Msgs[0])
		go sender(c14Msgs[1])
		sock.in <- &knxnet.RoutingBusy{WaitTime: 30 * time.Millisecond}
		sock.in <- &knxnet.RoutingInd{Payload: x1}
		sock.in <- &knxnet.RoutingBusy{WaitTime: 500 * time.Millisecond, Control: 1}
		sock.in <- &knxnet.RoutingInd{Payload: x2}
		verifSleep(int64(time.Second))
		close(sock.in)
		verifQuiesce()
		verifAssert("C14.run.sends_return", sent == 2)
	case 3: // Close while telegrams are parked; the reader arrives only afterwards: its range loop must end
		sock.in <- &knxnet.RoutingInd{Payload: x1}
		sock.in <- &knxnet.RoutingInd{Payload: x2}
		verifQuiesce()
		close(sock.in)
		verifQuiesce()
		go reader()
		verifQuiesce()
		verifAssert("C14.run.serve_ends", serveDone)
		verifAssert("C14.run.inbound_closed", readerDone)
		for i, m := range got {
			verifAssert("C14.run.parked_in_order", (i == 0 && m == x1) || (i == 1 && m == x2))
		}
		verifCover("C14.run.end")
		return
	case 2: // reader absent during the traffic, arrives late, then Close
		sock.in <- &knxnet.RoutingInd{Payload: x1}
		sock.in <- &knxnet.RoutingInd{Payload: x2}
		go reader()
		verifQuiesce()
		close(sock.in)
		verifQuiesce()
	}
	verifAssert("C14.run.serve_ends", serveDone)
	verifAssert("C14.run.inbound_closed", readerDone)
	n1, n2 := 0, 0
	for _, m := range got {
		if m == x1 {
			n1++
		}
		if m == x2 {
			n2++
		}
	}
	verifAssert("C14.run.exactly_once", n1 == 1 && n2 == 1 && len(got) == 2)
	verifCover("C14.run.end")
}
