//go:build verif

package knx

import (
	"github.com/vapourismo/knx-go/knx/cemi"
	"github.com/vapourismo/knx-go/knx/knxnet"
)

func init() {
	verifHarnesses["HarnessC17"] = HarnessC17
}

// HarnessC17: a = {client: 0 tunnel (pushInbound directly; 8: the same from a used-up overflow queue), 2 group layer (serveGroupInbound on a plain
// channel), 3 tunnel through handleTunnelReq (UDP), 4 the same in TCP mode; k telegrams; consumer:
// 0 always waiting, 1 absent during the burst, 2 takes one telegram then stalls, 3 takes one
// telegram, stalls and resumes in the middle of the burst}. The server side accepts m1..mk in
// order; the application must see them in that order. These clients are driven through unexported
// functions (white box); the constructor-built clients are in HarnessC17BB.
func HarnessC17(a []int) {
	client := a[0]
	var inbound <-chan cemi.Message
	var events <-chan GroupEvent
	var push func(cemi.Message)
	switch client {
	case 0, 8:
		conn := vTunnel(newVSock(), false)
		if client == 8 {
			// the queue as it is left behind by telegrams parked and delivered earlier: drained by
			// re-slicing, i.e. empty, not nil, no spare capacity (a state every longer history reaches)
			conn.overflow = make([]cemi.Message, 0, 0)
		}
		inbound, push = conn.inbound, conn.pushInbound
	case 3, 4:
		conn := vTunnel(newVSock(), client == 4)
		conn.channel = 9
		var seq uint8
		inbound = conn.inbound
		push = func(m cemi.Message) {
			conn.handleTunnelReq(&knxnet.TunnelReq{Channel: 9, SeqNumber: seq, Payload: m}, &seq)
		}
	default:
		ch := make(chan cemi.Message)
		ev := make(chan GroupEvent)
		go serveGroupInbound(ch, ev)
		events = ev
		push = func(m cemi.Message) { ch <- m }
	}
	c17Core(a, inbound, events, push)
}
