//go:build verif

package knx

import (
	"errors"
	"net"
	"time"

	"github.com/vapourismo/knx-go/knx/cemi"
	"github.com/vapourismo/knx-go/knx/knxnet"
)

// vSock is the in-memory knxnet.Socket of the closed-mode harnesses (DESIGN 3.4): it
// replaces only the kernel. Every transmitted frame is logged with its virtual time stamp.
type vSock struct {
	log      []knxnet.ServicePackable
	stamps   []int64
	in       chan knxnet.Service
	failSend bool
	failOnce bool // the next Send fails (a transient error), later ones succeed again
	refused  int  // transmissions refused so far
	failFrom int // fail every Send from this log position on (-1: never)
	closed   int
	network  string
	onSend   func(knxnet.ServicePackable)
}

var errVSock = errors.New("vsock: send failed")

func newVSock() *vSock {
	return &vSock{in: make(chan knxnet.Service), failFrom: -1, network: "udp"}
}

func (s *vSock) Send(p knxnet.ServicePackable) error {
	if s.failOnce {
		s.failOnce = false
		s.refused++
		return errVSock
	}
	if s.failSend || (s.failFrom >= 0 && len(s.log) >= s.failFrom) {
		s.refused++
		return errVSock
	}
	s.log = append(s.log, p)
	s.stamps = append(s.stamps, verifNow())
	if s.onSend != nil {
		s.onSend(p)
	}
	return nil
}

func (s *vSock) Inbound() <-chan knxnet.Service { return s.in }

func (s *vSock) Close() error {
	s.closed++
	return nil
}

type vAddr struct{ network string }

func (a vAddr) Network() string { return a.network }
func (a vAddr) String() string  { return "192.0.2.1:3671" }

func (s *vSock) LocalAddr() net.Addr { return vAddr{s.network} }

// Shared by the step harnesses: a Tunnel constructed directly in a chosen state.
func vTunnel(sock *vSock, tcp bool) *Tunnel {
	return &Tunnel{
		sock:    sock,
		config:  TunnelConfig{ResendInterval: 2 * time.Second, HeartbeatInterval: 100 * time.Second, ResponseTimeout: 5 * time.Second, UseTCP: tcp},
		ack:     make(chan *knxnet.TunnelRes),
		inbound: make(chan cemi.Message),
		done:    make(chan struct{}),
	}
}

// c04Msgs: eight distinct telegrams of different cEMI kinds (the tunnel relays every kind: what is
// delivered or sent must not depend on it).
var c04Msgs = func() [8]cemi.Message {
	bm := cemi.LBusmonInd{0xbc, 0x11, 0x01}
	return [8]cemi.Message{&cemi.LDataInd{}, &cemi.LDataCon{}, &cemi.LDataReq{}, &bm, &cemi.LRawInd{}, &cemi.UnsupportedMessage{Code: 0xfc}, &cemi.LRawCon{}, &cemi.LDataInd{}}
}()

// c09Gateway answers connect requests with the given channel, heartbeats with OK and (optionally)
// tunnelling requests with an acknowledgement.
func c09Gateway(sock *vSock, newCh uint8, ackTunnel bool) {
	frames := make(chan knxnet.ServicePackable, 64)
	sock.onSend = func(p knxnet.ServicePackable) { frames <- p }
	go func() {
		verifDaemon()
		for f := range frames {
			switch r := f.(type) {
			case *knxnet.ConnStateReq:
				sock.in <- &knxnet.ConnStateRes{Channel: r.Channel, Status: 0}
			case *knxnet.ConnReq:
				sock.in <- &knxnet.ConnRes{Channel: newCh, Status: 0}
			case *knxnet.TunnelReq:
				if ackTunnel {
					sock.in <- &knxnet.TunnelRes{Channel: r.Channel, SeqNumber: r.SeqNumber, Status: 0}
				}
			}
		}
	}()
}
