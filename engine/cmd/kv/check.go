package main

import (
	"bytes"
	"encoding/json"
	"fmt"
	"os"
	"path/filepath"
	"reflect"
	"regexp"
	"runtime"
	"sort"
	"strings"
	"sync"
	"time"

	"golang.org/x/tools/go/ssa"

	"kv/exec"
	"kv/smt"
	"kv/term"
)

// Inst is one bounded instance of a harness.
type Inst struct {
	Pkg          string
	Fn           string
	Args         []int64
	Unwind       int
	MaxPaths     int
	Ctx          int  // context-switch bound (0 = unbounded)
	Race         bool // happens-before race check
	MaxSched     int
	Note         string
	UnwindIsHang bool     // no terminating run of this instance can reach the loop bound: a bound hit is reported as non-termination
	ForceNative  bool     // replayed natively although the spec is engine-only (schedule-independent outcome)
	NoNative     bool     // concurrency harness: no deterministic native replay
	KnownRaces   []string // substrings of race descriptions listed as known findings
	RandChoice   bool     // math/rand.Float64 = one of {0, 0.5, 0.9999999} instead of a symbolic float
}

func (i Inst) Key() string { return fmt.Sprintf("%s.%s%v", i.Pkg, i.Fn, i.Args) }

type Spec struct {
	ID       string
	Quick    func(l *loaded) []Inst
	Thorough func(l *loaded) []Inst
	NoNative bool                                         // all instances are concurrency/virtual-time harnesses without deterministic native replay
	Solver   string                                       // preferred solver (default z3)
	Extra    func(l *loaded) (viol []string, covered int) // concrete side check (finite, no solver)
	Covers   []string                                     // witnesses that must be reached
	Bounds   string
	Outside  string
	Assume   []string
}

type instResult struct {
	Inst       Inst
	fn         *ssa.Function
	mu         sync.Mutex
	Paths      int
	ByKind     map[string]int
	Covers     map[string]int
	Bad        []exec.Outcome
	Samples    []exec.Outcome
	Capped     bool
	Incomplete bool
	busy       int
	Decisions  int
	Uncertain  int
	Elapsed    float64
	Races      map[string]bool
}

type workItem struct {
	ir     *instResult
	prefix []exec.Decision
}

type pool struct {
	mu        sync.Mutex
	cond      *sync.Cond
	stacks    map[*instResult][]workItem // one LIFO stack of decision prefixes per instance
	ring      []*instResult              // round robin over the instances: small ones finish early, exploding ones share the rest
	rr        int
	pending   int
	active    int
	stop      bool
	budgetHit bool
}

func (p *pool) push(w workItem) {
	p.mu.Lock()
	if p.stacks == nil {
		p.stacks = map[*instResult][]workItem{}
	}
	if _, ok := p.stacks[w.ir]; !ok {
		p.ring = append(p.ring, w.ir)
	}
	p.stacks[w.ir] = append(p.stacks[w.ir], w)
	p.pending++
	p.mu.Unlock()
	p.cond.Signal()
}

func (p *pool) pop() (workItem, bool) {
	p.mu.Lock()
	defer p.mu.Unlock()
	for p.pending == 0 && p.active > 0 && !p.stop {
		p.cond.Wait()
	}
	if p.pending == 0 || p.stop {
		p.cond.Broadcast()
		return workItem{}, false
	}
	for i := 0; i < len(p.ring); i++ {
		ir := p.ring[(p.rr+i)%len(p.ring)]
		st := p.stacks[ir]
		if len(st) == 0 {
			continue
		}
		w := st[len(st)-1]
		p.stacks[ir] = st[:len(st)-1]
		p.rr = (p.rr + i + 1) % len(p.ring)
		p.pending--
		p.active++
		return w, true
	}
	return workItem{}, false
}

func (p *pool) done() {
	p.mu.Lock()
	p.active--
	p.mu.Unlock()
	p.cond.Broadcast()
}

type runStats struct {
	Queries   int
	SolverS   float64
	Instrs    int
	BlockTr   int
	Sched     int
	Decisions int
	Funcs     map[string]bool
	Stubs     map[string]bool
	Errors    int
	BudgetHit bool
}

type options struct {
	workers     int
	solver      string
	timeoutMs   int
	samplesPer  int
	trace       bool
	solverSet   bool
	budgetS     int
	known       []finding
	prop        string
	noEarlyStop bool // explore everything even after a counterexample (cross-solver pass)
}

// verdictSig is the sorted set of distinct non-ok outcomes of an instance.
func verdictSig(r *instResult) string {
	set := map[string]bool{}
	for _, o := range r.Bad {
		set[o.Kind+"|"+o.Detail+"|"+o.Site] = true
	}
	var ks []string
	for k := range set {
		ks = append(ks, k)
	}
	sort.Strings(ks)
	return strings.Join(ks, ";")
}

// explore runs all instances on a shared worker pool.
func explore(l *loaded, insts []Inst, opt options) ([]*instResult, runStats, error) {
	var results []*instResult
	p := &pool{}
	p.cond = sync.NewCond(&p.mu)
	for _, in := range insts {
		fn, err := l.harness(in.Pkg, in.Fn)
		if err != nil {
			if len(droppedHarness) > 0 {
				missingHarness = append(missingHarness, in.Key())
				continue
			}
			return nil, runStats{}, err
		}
		ir := &instResult{Inst: in, fn: fn, ByKind: map[string]int{}, Covers: map[string]int{}}
		results = append(results, ir)
	}
	for _, r := range results {
		p.push(workItem{ir: r})
	}
	stats := runStats{Funcs: map[string]bool{}, Stubs: map[string]bool{}}
	var smu sync.Mutex
	distinct := map[string]bool{}
	stopProgress := make(chan struct{})
	defer close(stopProgress)
	if opt.budgetS > 0 {
		go func() {
			select {
			case <-stopProgress:
			case <-time.After(time.Duration(opt.budgetS) * time.Second):
				p.mu.Lock()
				p.stop = true
				p.budgetHit = true
				p.mu.Unlock()
				p.cond.Broadcast()
			}
		}()
	}
	if os.Getenv("KV_PROGRESS") != "" {
		go func() {
			tk := time.NewTicker(10 * time.Second)
			defer tk.Stop()
			for {
				select {
				case <-stopProgress:
					return
				case <-tk.C:
					tot := 0
					var big []string
					for _, r := range results {
						r.mu.Lock()
						tot += r.Paths
						if r.Paths > 2000 {
							big = append(big, fmt.Sprintf("%s:%d", r.Inst.Key(), r.Paths))
						}
						r.mu.Unlock()
					}
					p.mu.Lock()
					q := p.pending
					p.mu.Unlock()
					fmt.Fprintf(os.Stderr, "progress: %d paths, queue %d, big: %v\n", tot, q, big)
				}
			}
		}()
	}
	var wg sync.WaitGroup
	var firstErr error
	for w := 0; w < opt.workers; w++ {
		wg.Add(1)
		w := w
		go func() {
			defer wg.Done()
			s, err := smt.Start(opt.solver, opt.timeoutMs)
			if err != nil {
				smu.Lock()
				firstErr = err
				smu.Unlock()
				return
			}
			defer s.Close()
			if lp := os.Getenv("KV_SMTLOG"); lp != "" {
				f, _ := os.Create(fmt.Sprintf("%s.%d", lp, w))
				defer f.Close()
				s.Log = f
			}
			var e *exec.Exec
			for {
				wi, ok := p.pop()
				if !ok {
					break
				}
				ir := wi.ir
				if e == nil || e.C.Size() > 400000 {
					if e != nil {
						mergeStats(&smu, &stats, e)
					}
					e = exec.New(l.World, s, exec.Config{})
				}
				e.Cfg = exec.Config{Unwind: ir.Inst.Unwind, ContextBound: ir.Inst.Ctx, RaceCheck: ir.Inst.Race,
					MaxSched: ir.Inst.MaxSched, Trace: opt.trace, MaxSteps: 4000000, RandChoice: ir.Inst.RandChoice, KnownRaces: ir.Inst.KnownRaces}
				if e.Cfg.Unwind == 0 {
					e.Cfg.Unwind = 1200
				}
				if e.Cfg.MaxSched == 0 {
					e.Cfg.MaxSched = 5000
				}
				tp := time.Now()
				out := e.RunPath(ir.fn, ir.Inst.Args, wi.prefix)
				ir.mu.Lock()
				ir.Elapsed += time.Since(tp).Seconds()
				ir.Paths++
				ir.ByKind[out.Kind]++
				for _, c := range out.Covers {
					ir.Covers[c]++
				}
				if out.Uncertain {
					ir.Uncertain++
				}
				for _, kr := range out.KnownRaces {
					if ir.Races == nil {
						ir.Races = map[string]bool{}
					}
					ir.Races[kr] = true
				}
				switch out.Kind {
				case "ok":
					if len(ir.Samples) < opt.samplesPer && out.Model != nil {
						ir.Samples = append(ir.Samples, out)
					}
				case "infeasible":
				default:
					if len(ir.Bad) < 400 {
						ir.Bad = append(ir.Bad, out)
					}
					// an outcome reached past a solver "unknown" is not a settled counterexample: it must not end the exploration early
					if out.Kind != "unsupported" && out.Kind != "engine-error" && !out.Uncertain && !opt.noEarlyStop && matchFinding(opt.known, opt.prop, ir.Inst, out) == nil {
						smu.Lock()
						first := len(distinct) == 0
						distinct[sig(ir.Inst, out)] = true
						many := len(distinct) >= 40
						smu.Unlock()
						if first {
							// a counterexample exists: the verdict is settled, give the rest of the
							// exploration a grace period only (more counterexamples help triage)
							go func() {
								time.Sleep(90 * time.Second)
								p.mu.Lock()
								p.stop = true
								p.mu.Unlock()
								p.cond.Broadcast()
							}()
						}
						if many {
							// enough distinct counterexamples: no point in exploring the rest
							p.mu.Lock()
							p.stop = true
							p.mu.Unlock()
							p.cond.Broadcast()
						}
					}
				}
				capped := ir.Inst.MaxPaths > 0 && ir.Paths >= ir.Inst.MaxPaths
				if capped {
					ir.Capped = true
				}
				ir.mu.Unlock()
				if !capped {
					start := len(wi.prefix) - 1
					if start < 0 {
						start = 0
					}
					d := out.Dec
					for i := start; i < len(d); i++ {
						var alt *exec.Decision
						switch d[i].Kind {
						case exec.DBranch, exec.DConc:
							if d[i].K == 0 && d[i].N == 2 {
								a := d[i]
								a.K = 1
								alt = &a
							}
						case exec.DChoice:
							if d[i].K+1 < d[i].N {
								a := d[i]
								a.K++
								alt = &a
							}
						}
						if alt != nil {
							np := make([]exec.Decision, i+1)
							copy(np, d[:i])
							for j := 0; j < i; j++ {
								np[j].AltModel = nil
							}
							np[i] = *alt
							p.push(workItem{ir: ir, prefix: np})
						}
					}
				}
				p.done()
			}
			if e != nil {
				mergeStats(&smu, &stats, e)
			}
			smu.Lock()
			stats.Queries += s.Queries
			stats.SolverS += s.Time.Seconds()
			stats.Errors += s.Errors
			smu.Unlock()
		}()
	}
	wg.Wait()
	stats.BudgetHit = p.budgetHit
	for _, r := range results {
		r.Incomplete = len(p.stacks[r]) > 0 // alternatives left unexplored (budget or early stop)
	}
	return results, stats, firstErr
}

// missingHarness: instances whose harness was dropped because its file does not compile (inconclusive).
var missingHarness []string

func mergeStats(mu *sync.Mutex, st *runStats, e *exec.Exec) {
	mu.Lock()
	defer mu.Unlock()
	st.Instrs += e.Stats.Instrs
	st.BlockTr += e.Stats.BlockTrans
	st.Sched += e.Stats.SchedSteps
	st.Decisions += e.Stats.Decisions
	for k := range e.Stats.Funcs {
		st.Funcs[k] = true
	}
	for k := range e.Stats.Stubs {
		st.Stubs[k] = true
	}
}

// ---- findings ---------------------------------------------------------------------------

type finding struct {
	Property string `json:"property"`
	Harness  string `json:"harness,omitempty"`
	Kind     string `json:"kind,omitempty"`
	Detail   string `json:"detail,omitempty"` // substring match on detail
	Site     string `json:"site,omitempty"`   // substring match on site
	Status   string `json:"status"`           // known | fixed
	Commit   string `json:"commit,omitempty"`
	What     string `json:"what"`
}

type findingsFile struct {
	Findings []finding `json:"findings"`
}

func loadFindings() []finding {
	var ff findingsFile
	b, err := os.ReadFile(filepath.Join(verifDir, "known_findings.json"))
	if err != nil {
		return nil
	}
	if err := json.Unmarshal(b, &ff); err != nil {
		fmt.Fprintln(os.Stderr, "known_findings.json:", err)
		return nil
	}
	return ff.Findings
}

func matchFinding(fs []finding, prop string, in Inst, o exec.Outcome) *finding {
	for i := range fs {
		f := &fs[i]
		if f.Status != "known" || f.Property != prop {
			continue
		}
		if f.Harness != "" && f.Harness != in.Fn {
			continue
		}
		if f.Kind != "" && f.Kind != o.Kind {
			continue
		}
		if f.Detail != "" && !strings.Contains(o.Detail, f.Detail) {
			continue
		}
		if f.Site != "" && !strings.Contains(o.Site, f.Site) {
			continue
		}
		return f
	}
	return nil
}

// ---- the check driver ----------------------------------------------------------------------

type replayFile struct {
	Property   string     `json:"property"`
	Pkg        string     `json:"pkg"`
	Harness    string     `json:"harness"`
	Args       []int64    `json:"args"`
	Kind       string     `json:"kind"`
	Detail     string     `json:"detail"`
	Site       string     `json:"site"`
	Nondet     []uint64   `json:"nondet"`
	NondetK    []string   `json:"nondet_kinds"`
	Obs        []string   `json:"obs,omitempty"`
	Confirmed  bool       `json:"confirmed"`
	Native     string     `json:"native_outcome,omitempty"`
	Note       string     `json:"note,omitempty"`
	EngineOnly bool       `json:"engine_only,omitempty"`
	Decisions  [][4]int64 `json:"decisions,omitempty"` // kind, K, N, V of every decision of the path (engine-level replay)
	Ctx        int        `json:"context_bound,omitempty"`
	Race       bool       `json:"race_check,omitempty"`
	RandChoice bool       `json:"rand_choice,omitempty"`
}

func decVector(d []exec.Decision) [][4]int64 {
	out := make([][4]int64, len(d))
	for i, x := range d {
		out[i] = [4]int64{int64(x.Kind), int64(x.K), int64(x.N), x.V}
	}
	return out
}

func nondetVec(o exec.Outcome) ([]uint64, []string) {
	var v []uint64
	var k []string
	for _, n := range o.Nondets {
		if n.Kind == "aux" {
			continue
		}
		v = append(v, n.Val)
		k = append(k, n.Kind)
	}
	return v, k
}

func sig(in Inst, o exec.Outcome) string {
	d := o.Detail
	if o.Kind == "panic" || o.Kind == "region" {
		d = digitsRe.ReplaceAllString(d, "N")
	}
	return fmt.Sprintf("%s%v|%s|%s|%s", in.Fn, in.Args, o.Kind, d, o.Site)
}

func runCheck(prop, tier string, opt options) int {
	t0 := time.Now()
	spec, ok := specs[prop]
	if !ok {
		fmt.Fprintf(os.Stderr, "unknown property %s\n", prop)
		return 2
	}
	seed := 0
	fmt.Sscan(os.Getenv("VERIF_SEED"), &seed)
	l, err := load()
	if err != nil {
		fmt.Fprintln(os.Stderr, "load:", err)
		return 2
	}
	var insts []Inst
	if tier == "thorough" && spec.Thorough != nil {
		insts = spec.Thorough(l)
	} else {
		insts = spec.Quick(l)
	}
	if spec.NoNative {
		for i := range insts {
			insts[i].NoNative = !insts[i].ForceNative
		}
	}
	if spec.Solver != "" && !opt.solverSet {
		opt.solver = spec.Solver
	}
	known := loadFindings()
	opt.known, opt.prop = known, prop
	results, stats, err := explore(l, insts, opt)
	if err != nil {
		fmt.Fprintln(os.Stderr, "explore:", err)
		return 2
	}
	// thorough tier: re-decide the quick instance set with a second solver and compare the verdicts
	crossChecked, crossNote := 0, ""
	var crossMismatch []string
	if tier == "thorough" && os.Getenv("KV_NOCROSS") == "" && !stats.BudgetHit {
		alt := "cvc5"
		if opt.solver == "cvc5" {
			alt = "z3-new"
		}
		qi := spec.Quick(l)
		if spec.NoNative {
			for i := range qi {
				qi[i].NoNative = !qi[i].ForceNative
			}
		}
		opt2 := opt
		opt2.solver = alt
		opt2.budgetS = 900
		opt2.timeoutMs = 30000
		opt2.noEarlyStop = true
		res2, st2, err2 := explore(l, qi, opt2)
		if err2 == nil {
			byKey := map[string]*instResult{}
			for _, r := range results {
				byKey[r.Inst.Key()] = r
			}
			for _, r2 := range res2 {
				r1 := byKey[r2.Inst.Key()]
				if r1 == nil || r2.Uncertain > 0 || r1.Uncertain > 0 || r2.ByKind["unsupported"] > 0 {
					continue
				}
				if r1.Incomplete || r2.Incomplete || r1.Capped || r2.Capped {
					// only instances whose exploration finished in both runs are comparable
					continue
				}
				// the verdict (set of distinct non-ok outcomes) must agree; path counts are compared only
				// when the two runs explored the very same instance (the thorough tier may use other bounds
				// under the same harness arguments)
				crossChecked++
				same := reflect.DeepEqual(r1.Inst, r2.Inst)
				if verdictSig(r1) != verdictSig(r2) || (same && fmt.Sprint(r1.ByKind) != fmt.Sprint(r2.ByKind)) {
					crossMismatch = append(crossMismatch, fmt.Sprintf("%s: %s %v vs %s %v", r2.Inst.Key(), opt.solver, r1.ByKind, alt, r2.ByKind))
				}
			}
			crossNote = fmt.Sprintf("%d instances of the quick set re-decided with %s (%d queries, %.1fs)", crossChecked, alt, st2.Queries, st2.SolverS)
			if st2.BudgetHit {
				crossNote = "cross-solver pass with " + alt + " exceeded its 900 s budget: not compared"
			}
		}
	}
	budgetNote := ""
	if stats.BudgetHit {
		budgetNote = fmt.Sprintf("time budget of %d s exceeded: exploration stopped early (violations found so far are still reported)", opt.budgetS)
	}

	// classify
	type group struct {
		in   Inst
		o    exec.Outcome
		n    int
		conf string // native outcome
	}
	groups := map[string]*group{}
	var order []string
	inconclusive := []string{}
	totalPaths, states := 0, 0
	byKind := map[string]int{}
	covers := map[string]int{}
	for _, r := range results {
		totalPaths += r.Paths
		for k, v := range r.ByKind {
			byKind[k] += v
		}
		for k, v := range r.Covers {
			covers[k] += v
		}
		if r.Capped {
			inconclusive = append(inconclusive, fmt.Sprintf("%s: path cap %d reached", r.Inst.Key(), r.Inst.MaxPaths))
		}
		for _, o := range r.Bad {
			switch o.Kind {
			case "unsupported", "engine-error":
				inconclusive = append(inconclusive, fmt.Sprintf("%s: %s: %s @ %s", r.Inst.Key(), o.Kind, o.Detail, o.Site))
				continue
			}
			s := sig(r.Inst, o)
			g := groups[s]
			if g == nil {
				g = &group{in: r.Inst, o: o}
				groups[s] = g
				order = append(order, s)
			}
			g.n++
		}
	}
	states = stats.Decisions + totalPaths

	// native validation: samples of ok paths + one representative per violation group
	var cases []nativeCase
	caseOf := map[int]*group{}
	id := 0
	for _, s := range order {
		g := groups[s]
		if g.in.NoNative || g.o.Model == nil || id >= 150 {
			continue
		}
		v, _ := nondetVec(g.o)
		cases = append(cases, nativeCase{ID: id, Pkg: g.in.Pkg, Harness: g.in.Fn, Args: g.in.Args, Nondet: v, Twin: isTwinKind(g.o)})
		caseOf[id] = g
		id++
	}
	type sampleRef struct {
		in Inst
		o  exec.Outcome
	}
	sampleOf := map[int]sampleRef{}
	for _, r := range results {
		if r.Inst.NoNative {
			continue
		}
		for _, o := range r.Samples {
			v, _ := nondetVec(o)
			cases = append(cases, nativeCase{ID: id, Pkg: r.Inst.Pkg, Harness: r.Inst.Fn, Args: r.Inst.Args, Nondet: v})
			sampleOf[id] = sampleRef{r.Inst, o}
			id++
		}
	}
	validated, mismatches := 0, []string{}
	var nativeErr error
	if len(cases) > 0 {
		res, err := runNative(cases)
		nativeErr = err
		for _, nr := range res {
			if g, ok := caseOf[nr.ID]; ok {
				g.conf = nr.Outcome
				if nr.Outcome == "panic" {
					g.conf = "panic: " + nr.Detail
				}
				if nr.TwinDiff {
					g.conf = "twin-differs: " + nr.Detail
				}
				continue
			}
			if sr, ok := sampleOf[nr.ID]; ok {
				if nr.Outcome == "notrun" {
					continue
				}
				want := strings.Join(sr.o.Obs, ";")
				got := strings.Join(nr.Obs, ";")
				if nr.Outcome != "ok" || want != got {
					mismatches = append(mismatches, fmt.Sprintf("%s: engine ok obs[%s] vs native %s %s obs[%s] nondet=%v",
						sr.in.Key(), want, nr.Outcome, nr.Detail, got, cases[nr.ID].Nondet))
				} else {
					validated++
				}
			}
		}
	}
	if nativeErr != nil {
		inconclusive = append(inconclusive, "native validation failed to run: "+nativeErr.Error())
	}
	if len(mismatches) > 0 {
		for i, m := range mismatches {
			if i < 10 {
				inconclusive = append(inconclusive, "encoder validation mismatch: "+m)
			}
		}
	}

	// violations
	violations := 0
	knownSeen := map[string]bool{}
	var out []string
	for _, r := range results {
		for race := range r.Races {
			o := exec.Outcome{Kind: "race", Detail: race}
			if kf := matchFinding(known, prop, r.Inst, o); kf != nil {
				if !knownSeen[kf.What] {
					out = append(out, fmt.Sprintf("KNOWN-FINDING: property=%s %s", prop, kf.What))
					knownSeen[kf.What] = true
				}
			} else {
				inconclusive = append(inconclusive, "race tolerated by the instance but not listed in known_findings.json: "+race)
			}
		}
	}
	outDir := verifDir
	if v := os.Getenv("KV_OUT"); v != "" {
		outDir = v // experiments (seeded changes) write their evidence and replays elsewhere
	}
	os.MkdirAll(filepath.Join(outDir, "replays", prop), 0o755)
	// clean old replay files of this property
	old, _ := filepath.Glob(filepath.Join(outDir, "replays", prop, "*.json"))
	for _, f := range old {
		os.Remove(f)
	}
	sampleViol := []interface{}{}
	for i, s := range order {
		g := groups[s]
		confirmed := false
		note := ""
		switch {
		case g.in.NoNative:
			note = "schedule counterexample: no deterministic native replay"
		case g.o.Model == nil:
			note = "no model (solver unknown)"
		case g.o.Kind == "panic":
			confirmed = strings.HasPrefix(g.conf, "panic")
		case isTwinKind(g.o):
			confirmed = strings.HasPrefix(g.conf, "twin-differs") || strings.HasPrefix(g.conf, "panic")
			note = "dependence on bytes outside the input / on stale buffer content; native confirmation = the same input with different garbage gives a different result"
		case g.o.Kind == "assert":
			confirmed = g.conf == "assert:"+g.o.Detail
		case g.o.Kind == "unwind":
			confirmed = g.conf == "hang"
		}
		if g.o.Kind == "unwind" && !confirmed && g.in.UnwindIsHang && g.in.NoNative {
			note = "non-termination: the loop bound is far beyond what any terminating run of this instance needs; engine-only instance, replay re-executes the recorded decision vector"
		} else if g.o.Kind == "unwind" && !confirmed {
			inconclusive = append(inconclusive, fmt.Sprintf("%s: unwinding bound hit (%s @ %s), native run: %s", g.in.Key(), g.o.Detail, g.o.Site, g.conf))
			continue
		}
		if (g.o.Kind == "panic" || g.o.Kind == "assert" || g.o.Kind == "region") && !confirmed && !g.in.NoNative {
			inconclusive = append(inconclusive, fmt.Sprintf("%s: counterexample did not reproduce natively (%s %s @ %s; native: %s)", g.in.Key(), g.o.Kind, g.o.Detail, g.o.Site, g.conf))
			continue
		}
		if kf := matchFinding(known, prop, g.in, g.o); kf != nil {
			if !knownSeen[kf.What] {
				out = append(out, fmt.Sprintf("KNOWN-FINDING: property=%s %s", prop, kf.What))
				knownSeen[kf.What] = true
			}
			continue
		}
		violations++
		v, ks := nondetVec(g.o)
		rf := replayFile{Property: prop, Pkg: g.in.Pkg, Harness: g.in.Fn, Args: g.in.Args, Kind: g.o.Kind, Detail: g.o.Detail,
			Site: g.o.Site, Nondet: v, NondetK: ks, Obs: g.o.Obs, Confirmed: confirmed, Native: g.conf, Note: note,
			EngineOnly: g.in.NoNative, Decisions: decVector(g.o.Dec), Ctx: g.in.Ctx, Race: g.in.Race, RandChoice: g.in.RandChoice}
		path := filepath.Join(outDir, "replays", prop, fmt.Sprintf("%s-%d.json", g.in.Fn, i))
		b, _ := json.MarshalIndent(rf, "", " ")
		os.WriteFile(path, b, 0o644)
		out = append(out, fmt.Sprintf("VIOLATION property=%s replay=%s", prop, path))
		out = append(out, fmt.Sprintf("  %s args=%v: %s %s @ %s (x%d paths, native: %s)", g.in.Fn, g.in.Args, g.o.Kind, g.o.Detail, g.o.Site, g.n, g.conf))
		if len(sampleViol) < 5 {
			sampleViol = append(sampleViol, rf)
		}
	}
	if spec.Extra != nil {
		ev, n := spec.Extra(l)
		states += n
		for i, v := range ev {
			if strings.HasPrefix(v, "INCONCLUSIVE:") {
				inconclusive = append(inconclusive, strings.TrimSpace(strings.TrimPrefix(v, "INCONCLUSIVE:")))
				continue
			}
			violations++
			path := filepath.Join(outDir, "replays", prop, fmt.Sprintf("extra-%d.json", i))
			b, _ := json.MarshalIndent(map[string]string{"property": prop, "kind": "concrete", "detail": v}, "", " ")
			os.WriteFile(path, b, 0o644)
			out = append(out, fmt.Sprintf("VIOLATION property=%s replay=%s", prop, path), "  "+v)
		}
	}
	if budgetNote != "" {
		inconclusive = append(inconclusive, budgetNote)
	}
	reduced := ""
	if len(missingHarness) > 0 {
		msg := fmt.Sprintf("%d of %d instance(s) not run: harness file(s) %v do not compile against the current tree (in-package step harnesses name unexported identifiers that changed); first: %s", len(missingHarness), len(insts), droppedHarness, missingHarness[0])
		if len(results) == 0 {
			inconclusive = append(inconclusive, msg)
		} else {
			// reduced coverage: the verdict rests on the instances that still compile (the black-box
			// ones are written against the exported API); stated on stdout and in the evidence
			reduced = msg
		}
	}
	for _, m := range crossMismatch {
		inconclusive = append(inconclusive, "solver disagreement: "+m)
	}
	// vacuity
	for _, c := range spec.Covers {
		if covers[c] == 0 {
			if reduced != "" && witnessOnlyInDropped(c) {
				continue // its harness was not run (reduced coverage, reported as such)
			}
			inconclusive = append(inconclusive, "vacuity: witness "+c+" never reached")
		}
	}
	if stats.Errors > 0 {
		inconclusive = append(inconclusive, fmt.Sprintf("solver reported %d (error lines", stats.Errors))
	}

	// evidence
	samples := []interface{}{}
	for _, r := range results {
		if len(r.Samples) > 0 && len(samples) < 8 {
			o := r.Samples[0]
			v, _ := nondetVec(o)
			samples = append(samples, map[string]interface{}{"harness": r.Inst.Fn, "args": r.Inst.Args, "outcome": o.Kind,
				"nondet_model": v, "observations": o.Obs, "decisions": len(o.Dec), "decision_vector_kind_K_N_V": truncDec(decVector(o.Dec)), "note": r.Inst.Note})
		}
	}
	for _, sv := range sampleViol {
		samples = append(samples, sv)
	}
	if len(samples) == 0 {
		samples = append(samples, map[string]interface{}{"note": "no path produced a model"})
	}
	instDesc := []map[string]interface{}{}
	for _, r := range results {
		instDesc = append(instDesc, map[string]interface{}{"harness": r.Inst.Fn, "args": r.Inst.Args, "paths": r.Paths, "outcomes": r.ByKind, "note": r.Inst.Note, "cpu_s": r.Elapsed})
	}
	if len(instDesc) > 60 {
		instDesc = instDesc[:60]
	}
	var funcs []string
	for f := range stats.Funcs {
		if strings.Contains(f, modPath) && !strings.Contains(f, "Harness") && !strings.Contains(f, "verif") && !strings.Contains(f, "nondet") {
			funcs = append(funcs, strings.ReplaceAll(f, modPath+"/", ""))
		}
	}
	sort.Strings(funcs)
	var stubsUsed []string
	for f := range stats.Stubs {
		if !strings.Contains(f, ".nondet") && !strings.Contains(f, ".verif") {
			stubsUsed = append(stubsUsed, f)
		}
	}
	sort.Strings(stubsUsed)
	knownList := []string{}
	for k := range knownSeen {
		knownList = append(knownList, k)
	}
	sort.Strings(knownList)
	wall := time.Since(t0).Seconds()
	ev := map[string]interface{}{
		"property_id": prop,
		"tier":        tier,
		"seed":        seed,
		"level":       "model_checking",
		"wall_s":      wall,
		"violations":  violations,
		"coverage": map[string]interface{}{
			"states":                        states,
			"transitions":                   stats.BlockTr + stats.Sched,
			"traces_validated_against_impl": validated,
			"samples":                       samples,
			"paths":                         totalPaths,
			"path_outcomes":                 byKind,
			"obligations":                   stats.Queries,
			"queries":                       stats.Queries,
			"solver_s":                      stats.SolverS,
			"solver":                        opt.solver,
			"instances":                     len(insts),
			"instance_results":              instDesc,
			"functions_encoded":             funcs,
			"stubs":                         stubsUsed,
			"witnesses_reached":             covers,
			"bounds":                        spec.Bounds,
			"outside_bounds":                spec.Outside,
			"inconclusive":                  inconclusive,
			"reduced_coverage":              reduced,
			"known_findings_seen":           knownList,
			"ssa_instructions_executed":     stats.Instrs,
			"scheduler_steps":               stats.Sched,
			"cross_solver_checked":          crossChecked,
			"cross_solver_note":             crossNote,
			"load_s":                        l.LoadS,
			"workers":                       opt.workers,
			"explanation":                   "bounded symbolic execution of the go/ssa form of the current /repo tree; every branch feasibility and every assertion/panic obligation is decided by the SMT solver over all values of the symbolic inputs within the stated bounds; states = decision points + explored paths, transitions = SSA block transitions + scheduler steps",
		},
		"assumptions": append([]string{"go/ssa faithfully represents the source", "the SMT solver answers are correct (any (error line or unknown makes the run inconclusive)", "amd64 float-to-int conversion semantics"}, spec.Assume...),
	}
	os.MkdirAll(filepath.Join(outDir, "evidence"), 0o755)
	eb, _ := json.MarshalIndent(ev, "", " ")
	os.WriteFile(filepath.Join(outDir, "evidence", prop+".json"), eb, 0o644)

	for _, s := range out {
		fmt.Println(s)
	}
	fmt.Printf("%s %s: %d instances, %d paths %v, %d queries, solver %.1fs, native-validated %d, wall %.1fs\n",
		prop, tier, len(insts), totalPaths, byKind, stats.Queries, stats.SolverS, validated, wall)
	if reduced != "" {
		fmt.Println("REDUCED-COVERAGE:", reduced)
	}
	if violations > 0 {
		for i, s := range inconclusive {
			if i < 10 {
				fmt.Println("NOTE (not part of the verdict):", s)
			}
		}
		return 1
	}
	if len(inconclusive) > 0 {
		for i, s := range inconclusive {
			if i < 25 {
				fmt.Println("INCONCLUSIVE:", s)
			}
		}
		return 2
	}
	return 0
}

// witnessOnlyInDropped: the witness label occurs in dropped harness files only.
func witnessOnlyInDropped(c string) bool {
	lit := []byte(`verifCover("` + c + `")`)
	inDropped, inKept := false, false
	for hp := range harnessPkgs {
		files, _ := filepath.Glob(filepath.Join(verifDir, "harness", hp, "zz_verif_*.go"))
		for _, f := range files {
			b, err := os.ReadFile(f)
			if err != nil || !bytes.Contains(b, lit) {
				continue
			}
			dropped := false
			for _, d := range droppedHarness {
				if d == filepath.Base(f) {
					dropped = true
				}
			}
			if dropped {
				inDropped = true
			} else {
				inKept = true
			}
		}
	}
	return inDropped && !inKept
}

// isTwinKind: violations whose native confirmation is a twin run (same input, different garbage).
func isTwinKind(o exec.Outcome) bool {
	return o.Kind == "region" || (o.Kind == "assert" && strings.Contains(o.Detail, ".stale"))
}

func truncDec(d [][4]int64) [][4]int64 {
	if len(d) > 60 {
		return d[:60]
	}
	return d
}

var digitsRe = regexp.MustCompile(`[0-9]+`)

func defaultWorkers() int {
	n := runtime.NumCPU()
	if n > 16 {
		n = 16
	}
	return n
}

var _ = term.Model{}
