package main

import (
	"fmt"
	"os"
	"path/filepath"
	"strings"
	"time"

	"golang.org/x/tools/go/packages"
	"golang.org/x/tools/go/ssa"
	"golang.org/x/tools/go/ssa/ssautil"

	"kv/exec"
)

// repoDir is /repo; KV_REPO overrides it for experiments on a snapshot (never set by registered commands).
var repoDir = "/repo"

const modPath = "github.com/vapourismo/knx-go"

var verifDir = "/verif"

// harness package directories (relative to /verif/harness) -> repo package directories
var harnessPkgs = map[string]string{
	"util":   "knx/util",
	"cemi":   "knx/cemi",
	"knxnet": "knx/knxnet",
	"dpt":    "knx/dpt",
	"knx":    "knx",
}

type overlaySet struct {
	Mem   map[string][]byte // virtual path -> content (go/packages)
	Files map[string]string // virtual path -> real file (go test -overlay)
}

// buildOverlay maps harness files (and the generated runtime) into the repo package directories.
func buildOverlay(workDir string, withTests bool) (*overlaySet, error) {
	ov := &overlaySet{Mem: map[string][]byte{}, Files: map[string]string{}}
	rt, err := os.ReadFile(filepath.Join(verifDir, "harness", "rt.go.tmpl"))
	if err != nil {
		return nil, err
	}
	rpl, err := os.ReadFile(filepath.Join(verifDir, "harness", "replay_test.go.tmpl"))
	if err != nil {
		return nil, err
	}
	for hp, rp := range harnessPkgs {
		pkgName := filepath.Base(rp)
		add := func(name string, content []byte) error {
			virt := filepath.Join(repoDir, rp, name)
			ov.Mem[virt] = content
			if workDir != "" {
				real := filepath.Join(workDir, hp+"_"+name)
				if err := os.WriteFile(real, content, 0o644); err != nil {
					return err
				}
				ov.Files[virt] = real
			}
			return nil
		}
		files, _ := filepath.Glob(filepath.Join(verifDir, "harness", hp, "zz_verif_*.go"))
		if len(files) == 0 {
			continue
		}
		if err := add("zz_verif_rt.go", []byte(strings.Replace(string(rt), "package PKG", "package "+pkgName, 1))); err != nil {
			return nil, err
		}
		if withTests {
			if err := add("zz_verif_replay_test.go", []byte(strings.Replace(string(rpl), "package PKG", "package "+pkgName, 1))); err != nil {
				return nil, err
			}
		}
		for _, f := range files {
			if isDropped(filepath.Base(f)) {
				continue // does not compile against this tree (found by load()): keep it out of the native build too
			}
			b, err := os.ReadFile(f)
			if err != nil {
				return nil, err
			}
			if err := add(filepath.Base(f), b); err != nil {
				return nil, err
			}
		}
	}
	return ov, nil
}

type loaded struct {
	World *exec.World
	Prog  *ssa.Program
	Pkgs  []*packages.Package
	LoadS float64
}

func goEnv() []string {
	env := os.Environ()
	env = append(env, "GOFLAGS=-mod=mod", "GOPROXY=off", "GOSUMDB=off", "GOTOOLCHAIN=local", "CGO_ENABLED=0")
	return env
}

func load() (*loaded, error) {
	t0 := time.Now()
	ov, err := buildOverlay("", false)
	if err != nil {
		return nil, err
	}
	var pkgs []*packages.Package
	// A harness file that no longer compiles against the current tree (it is in-package code and
	// names unexported identifiers) is dropped, so that it only takes its own checks down.
	for attempt := 0; ; attempt++ {
		cfg := &packages.Config{
			Mode:       packages.LoadAllSyntax,
			Dir:        repoDir,
			Env:        goEnv(),
			BuildFlags: []string{"-tags=verif"},
			Overlay:    ov.Mem,
		}
		pkgs, err = packages.Load(cfg, "./knx/...")
		if err != nil {
			return nil, err
		}
		nerr := 0
		bad := map[string]bool{}
		other := 0
		packages.Visit(pkgs, nil, func(p *packages.Package) {
			for _, e := range p.Errors {
				if nerr < 20 {
					fmt.Fprintln(os.Stderr, "load error:", e)
				}
				nerr++
				file := e.Pos
				if i := strings.Index(file, ":"); i >= 0 {
					file = file[:i]
				}
				if _, isHarness := ov.Mem[file]; isHarness && strings.Contains(file, "zz_verif_") && !strings.HasSuffix(file, "zz_verif_rt.go") {
					bad[file] = true
				} else {
					other++
				}
			}
		})
		if nerr == 0 {
			break
		}
		if other > 0 || len(bad) == 0 || attempt >= 6 {
			return nil, fmt.Errorf("%d package load errors (does /repo compile with the harness overlay?)", nerr)
		}
		for f := range bad {
			fmt.Fprintln(os.Stderr, "dropping harness file that does not compile against this tree:", f)
			delete(ov.Mem, f)
			droppedHarness = append(droppedHarness, filepath.Base(f))
		}
	}
	prog, _ := ssautil.AllPackages(pkgs, ssa.InstantiateGenerics)
	prog.Build()
	w := &exec.World{Prog: prog, Pkgs: map[string]*ssa.Package{}, InitPkgs: map[string]bool{}, RepoDir: repoDir}
	for _, p := range prog.AllPackages() {
		w.Pkgs[p.Pkg.Path()] = p
		if strings.HasPrefix(p.Pkg.Path(), modPath) {
			w.InitPkgs[p.Pkg.Path()] = true
		}
	}
	return &loaded{World: w, Prog: prog, Pkgs: pkgs, LoadS: time.Since(t0).Seconds()}, nil
}

func isDropped(base string) bool {
	for _, d := range droppedHarness {
		if d == base {
			return true
		}
	}
	return false
}

// droppedHarness lists harness files excluded because they do not compile against the current tree.
var droppedHarness []string

func (l *loaded) harness(pkgDir, fn string) (*ssa.Function, error) {
	path := modPath + "/" + harnessPkgs[pkgDir]
	p := l.World.Pkgs[path]
	if p == nil {
		return nil, fmt.Errorf("package %s not loaded", path)
	}
	f := p.Func(fn)
	if f == nil {
		return nil, fmt.Errorf("harness %s not found in %s", fn, path)
	}
	return f, nil
}
