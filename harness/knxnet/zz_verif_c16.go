//go:build verif

package knxnet

import (
	"net"

	"github.com/vapourismo/knx-go/knx/cemi"
)

func init() {
	verifHarnesses["HarnessC16TCP"] = HarnessC16TCP
	verifHarnesses["HarnessC16UDP"] = HarnessC16UDP
	verifHarnesses["HarnessC16TCPBad"] = HarnessC16TCPBad
}

// HarnessC16TCP: a = {frames F, first kind, cut budget, dribble[, truncated]}: a stream of F well-formed frames
// delivered through Read calls that return arbitrary segments; each frame surfaces exactly once,
// in order; after the peer closed, Inbound is closed and the receiver has returned. With
// truncated = 1 the peer closes inside the last frame (after any number 1..len-1 of its bytes, header
// or body): the frames before it surface, then Inbound is closed and the receiver returns.
func HarnessC16TCP(a []int) {
	F, kind0, cuts, dribble := a[0], a[1], a[2], a[3]
	var want []ServicePackable
	var stream []byte
	for i := 0; i < F; i++ {
		v, b := c16Frame(kind0 + i)
		if len(a) > 4 && a[4] == 1 && i == F-1 {
			stream = append(stream, b[:nondetLen(1, len(b)-1)]...)
			F--
			verifCover("C16.tcp.truncated")
			break
		}
		want = append(want, v)
		stream = append(stream, b...)
	}
	verifStream(stream, cuts, dribble)
	inbound := make(chan Service)
	returned := false
	go func() {
		serveTCPSocket(&net.TCPConn{}, nil, inbound)
		returned = true
	}()
	for i := 0; i < F; i++ {
		got, open := <-inbound
		verifAssert("C16.tcp.frame_arrives", open)
		verifAssert("C16.tcp.frame_equal_in_order", c16Same(want[i], got))
	}
	_, open := <-inbound
	verifAssert("C16.tcp.closed_after_eof", !open)
	verifQuiesce()
	verifAssert("C16.tcp.receiver_returned", returned)
	verifCover("C16.tcp.end")
}

// HarnessC16TCPBad: a = {mode, cut budget}: 0: a frame with a consistent header but an arbitrary
// body is followed by a well-formed frame, which must still be delivered; 1: a header announcing a
// total length below 6 (symbolic 0..5): framing is lost, the receiver must give up (close Inbound),
// never hang.
func HarnessC16TCPBad(a []int) {
	mode, cuts := a[0], a[1]
	v, good := c16Frame(0)
	var stream []byte
	if mode == 0 {
		body := nondetBytes(6)
		bad := append([]byte{6, 0x10, 0x04, 0x20, 0, 12}, body...)
		stream = append(bad, good...)
	} else {
		n := nondetU8()
		verifAssume(n < 6)
		stream = append([]byte{6, 0x10, nondetU8(), nondetU8(), 0, n}, good...)
	}
	verifStream(stream, cuts, 0)
	inbound := make(chan Service)
	returned := false
	go func() {
		serveTCPSocket(&net.TCPConn{}, nil, inbound)
		returned = true
	}()
	if mode == 0 {
		var last Service
		n := 0
		for got := range inbound {
			last = got
			n++
		}
		verifAssert("C16.tcp.good_frame_after_bad", n >= 1 && c16Same(v, last))
		verifAssert("C16.tcp.at_most_both", n <= 2)
	} else {
		for range inbound {
		}
	}
	verifQuiesce()
	verifAssert("C16.tcp.receiver_returned", returned)
	verifCover("C16.tcpbad.end")
}

// HarnessC16UDP: a = {datagrams K, first kind, garbage length L (0: none, -1: an empty datagram)}: one frame per datagram;
// optionally an arbitrary (symbolic) datagram of L bytes first, which must not prevent or alter
// the delivery of the following well-formed ones (the 1024-byte receive buffer is reused).
func HarnessC16UDP(a []int) {
	K, kind0, L := a[0], a[1], a[2]
	badAccepted := false
	if L < 0 {
		verifDatagram([]byte{}) // an empty datagram is discarded like any other malformed one
	}
	if L > 0 {
		junk := nondetBytes(L)
		var s Service
		if _, err := Unpack(junk, &s); err == nil {
			badAccepted = true
		}
		verifDatagram(junk)
	}
	var want []ServicePackable
	stride := 1
	if len(a) > 3 && a[3] > 0 {
		stride = a[3] // stride 5 makes every datagram the same kind (e.g. all bus-monitor frames)
	}
	for i := 0; i < K; i++ {
		v, b := c16Frame(kind0 + i*stride)
		want = append(want, v)
		verifDatagram(b)
	}
	inbound := make(chan Service)
	returned := false
	go func() {
		serveUDPSocket(&net.UDPConn{}, nil, inbound)
		returned = true
	}()
	if badAccepted {
		_, open := <-inbound
		verifAssert("C16.udp.frame_arrives", open)
	}
	var gots []Service
	for i := 0; i < K; i++ {
		got, open := <-inbound
		verifAssert("C16.udp.frame_arrives", open)
		gots = append(gots, got)
	}
	_, open := <-inbound
	verifAssert("C16.udp.closed_after_error", !open)
	// compared only now: a decoded frame must not alias the receiver's reused datagram buffer
	for i := 0; i < K; i++ {
		verifAssert("C16.udp.frame_equal_in_order", c16Same(want[i], gots[i]))
	}
	verifQuiesce()
	verifAssert("C16.udp.receiver_returned", returned)
	verifCover("C16.udp.end")
}

func init() {
	verifHarnesses["HarnessC16ConcurrentSend"] = HarnessC16ConcurrentSend
}

// c16YieldConn is a net.Conn whose Write is a scheduling point: other goroutines may run between
// the moment Send has built its frame and the moment the bytes are handed to the network.
type c16YieldConn struct {
	c15Conn
	all [][]byte
}

func (c *c16YieldConn) Write(b []byte) (int, error) {
	verifYield()
	c.all = append(c.all, append([]byte(nil), b...))
	verifYield()
	return len(b), nil
}

// HarnessC16ConcurrentSend: a = {senders 2..3}: goroutines sending different frames through one
// TunnelSocket concurrently; every write must be exactly one complete frame of one of the senders,
// each frame exactly once.
func HarnessC16ConcurrentSend(a []int) {
	n := a[0]
	conn := &c16YieldConn{}
	sock := verifMkTunnelSocket(conn, nil)
	var want [][]byte
	var vals []ServicePackable
	for i := 0; i < n; i++ {
		v, b := c16Frame(i)
		vals = append(vals, v)
		want = append(want, b)
	}
	done := make(chan error, n)
	for i := 0; i < n; i++ {
		v := vals[i]
		go func() { done <- sock.Send(v) }()
	}
	for i := 0; i < n; i++ {
		verifAssert("C16.send.ok", <-done == nil)
	}
	verifAssert("C16.send.one_write_each", len(conn.all) == n)
	for i := 0; i < n; i++ {
		hits := 0
		for _, w := range conn.all {
			if len(w) != len(want[i]) {
				continue
			}
			same := true
			for k := range w {
				if w[k] != want[i][k] {
					same = false
				}
			}
			if same {
				hits++
			}
		}
		verifAssert("C16.send.each_frame_once_intact", hits >= 1)
	}
	for _, w := range conn.all {
		verifAssert("C16.send.wellformed_header", len(w) >= 6 && w[0] == 6 && w[1] == 0x10 && int(w[4])<<8|int(w[5]) == len(w))
	}
	verifCover("C16.send.concurrent.end")
}

func init() {
	verifHarnesses["HarnessC16Close"] = HarnessC16Close
	verifHarnesses["HarnessC15SendRouter"] = HarnessC15SendRouter
}

// HarnessC16Close: a = {0 TCP | 1 UDP, frames pending 0..2, reader: 0 reading all the time, 1 starts
// reading only after Close}: Close on the socket ends the receiver: Inbound is closed (a range loop
// ends) and the goroutine has returned, provided the application drains what was already decoded.
func HarnessC16Close(a []int) {
	udp, pending, late := a[0] == 1, a[1], a[2] == 1
	var stream []byte
	var want []ServicePackable
	for i := 0; i < pending; i++ {
		v, b := c16Frame(i)
		want = append(want, v)
		if udp {
			verifDatagram(b)
		} else {
			stream = append(stream, b...)
		}
	}
	// more traffic that must never surface: Close comes first
	_, extra := c16Frame(3)
	inbound := make(chan Service)
	returned := false
	var sock Socket
	if udp {
		conn := &net.UDPConn{}
		sock = verifMkRouterSocket(conn, nil, inbound)
		go func() {
			serveUDPSocket(conn, nil, inbound)
			returned = true
		}()
	} else {
		verifStream(stream, 0, 0)
		conn := &net.TCPConn{}
		sock = verifMkTunnelSocket(conn, inbound)
		go func() {
			serveTCPSocket(conn, nil, inbound)
			returned = true
		}()
	}
	var got []Service
	ended := false
	reader := func() {
		for s := range inbound {
			got = append(got, s)
		}
		ended = true
	}
	if !late {
		go reader()
	}
	verifQuiesce()
	verifAssert("C16.close.ok", sock.Close() == nil)
	if udp {
		verifDatagram(extra)
	}
	if late {
		go reader()
	}
	verifQuiesce()
	verifAssert("C16.close.inbound_closed", ended)
	verifAssert("C16.close.receiver_returned", returned)
	verifAssert("C16.close.nothing_after_close", len(got) <= pending)
	for i, s := range got {
		verifAssert("C16.close.in_order", c16Same(want[i], s))
	}
	verifCover("C16.close.end")
}

// HarnessC15SendRouter: a as HarnessC15Send: RouterSocket.Send hands exactly one datagram of
// header-total-length bytes to the network.
func HarnessC15SendRouter(a []int) {
	v := c15Value(a)
	sock := verifMkRouterSocket(&net.UDPConn{}, &net.UDPAddr{Port: 3671}, nil)
	err := sock.Send(v)
	verifAssert("C15.send.ok", err == nil)
	verifAssert("C15.send.one_write", verifNetWrites() == 1)
	w := verifNetWrite(0)
	verifAssert("C15.send.length", len(w) == int(Size(v)) && int(w[4])<<8|int(w[5]) == len(w))
	want := AllocAndPack(v)
	for i := range want {
		verifAssert("C15.send.bytes", w[i] == want[i])
	}
	verifCover("C15.sendrouter.end")
}

func init() {
	verifHarnesses["HarnessC16Origin"] = HarnessC16Origin
}

// HarnessC16Origin: the tunnel-socket receiver (bound to one peer) surfaces exactly the datagrams
// that come from that peer's address and port; sender host octet and port are symbolic.
func HarnessC16Origin(a []int) {
	peer := &net.UDPAddr{IP: net.IP{0, 0, 0, 0, 0, 0, 0, 0, 0, 0, 0xff, 0xff, 192, 0, 2, 1}, Port: 3671}
	v1, b1 := c16Frame(0)
	v2, b2 := c16Frame(1)
	host, port := nondetU8(), int(nondetU16())
	verifDatagramFrom(b1, host, port)
	verifDatagramFrom(b2, 1, 3671)
	inbound := make(chan Service)
	go serveUDPSocket(&net.UDPConn{}, peer, inbound)
	fromPeer := host == 1 && port == 3671
	got, open := <-inbound
	verifAssert("C16.origin.second_always_arrives", open)
	if fromPeer {
		verifCover("C16.origin.accepted")
		verifAssert("C16.origin.first_from_peer_surfaces", c16Same(v1, got))
		got, open = <-inbound
		verifAssert("C16.origin.second_always_arrives", open && c16Same(v2, got))
	} else {
		verifCover("C16.origin.dropped")
		verifAssert("C16.origin.foreign_sender_dropped", c16Same(v2, got))
	}
	_, open = <-inbound
	verifAssert("C16.origin.closed_after_error", !open)
}

func init() {
	verifHarnesses["HarnessC16TCPBig"] = HarnessC16TCPBig
}

// HarnessC16TCPBig: a = {payload bytes}: one frame that is larger than bufio's default buffer
// (a bus-monitor indication with a long raw payload) followed by a small one; both surface.
func HarnessC16TCPBig(a []int) {
	raw := make([]byte, a[0])
	raw[0], raw[a[0]-1] = nondetU8(), nondetU8()
	m := cemi.LBusmonInd(raw)
	big := &RoutingInd{Payload: &m}
	small, sb := c16Frame(0)
	stream := append(AllocAndPack(big), sb...)
	verifStream(stream, 0, 0)
	inbound := make(chan Service)
	go serveTCPSocket(&net.TCPConn{}, nil, inbound)
	got, open := <-inbound
	verifAssert("C16.tcpbig.arrives", open)
	ri, ok := got.(*RoutingInd)
	verifAssert("C16.tcpbig.kind", ok)
	bm, ok := ri.Payload.(*cemi.LBusmonInd)
	verifAssert("C16.tcpbig.payload", ok && len(*bm) == a[0] && (*bm)[0] == raw[0] && (*bm)[a[0]-1] == raw[a[0]-1])
	got, open = <-inbound
	verifAssert("C16.tcpbig.next_frame", open && c16Same(small, got))
	_, open = <-inbound
	verifAssert("C16.tcpbig.closed_after_eof", !open)
	verifCover("C16.tcpbig.end")
}
