package exec

import (
	"fmt"
	"go/types"
	"strings"

	"golang.org/x/tools/go/ssa"

	"kv/term"
)

type tstate int

const (
	tsRunning tstate = iota // executing invisible instructions
	tsParked                // at a visible operation
	tsDone
)

type panicState struct {
	val       Value
	msg       string
	site      string
	recovered bool
}

type Thread struct {
	ID         int
	Name       string
	Frames     []*Frame
	state      tstate
	panicking  *panicState
	pend       *pending
	vc         []int
	Daemon     bool // harness-declared: may stay blocked at the end
	diedPanic  *panicState
	reported   bool
	quiesced   bool
	pendCases  []selCase
	sleepTimer *Timer
	lockArr    int // event number of this thread's latest arrival at a Mutex.Lock
	arriving   bool
}

type pendKind int

const (
	pkNone pendKind = iota
	pkSend
	pkRecv
	pkSelect
	pkLock
	pkUnlock
	pkWait
	pkWgAdd
	pkOnce
	pkClose
	pkSleep
	pkYield
	pkQuiesce
)

type selCase struct {
	send bool
	ch   *Chan
	val  Value
}

type pending struct {
	kind   pendKind
	ch     *Chan
	val    Value
	cases  []selCase
	hasDef bool
	mu     *Object
	until  *term.T // sleep deadline
	timer  *Timer
}

type Chan struct {
	ID      int
	Cap     int
	Buf     []Value
	Closed  bool
	T       types.Type
	vcSend  [][]int // vector clocks accompanying buffered values
	vcClose []int
	Name    string
}

type Timer struct {
	ID       int
	Deadline *term.T
	Period   *term.T // ticker
	Ch       *Chan
	Fn       *Closure // AfterFunc
	Active   bool
	Sleeper  *Thread
	vc       []int
}

func (e *Exec) newThread(name string, parent *Thread) *Thread {
	t := &Thread{ID: len(e.threads), Name: name}
	n := len(e.threads) + 1
	t.vc = make([]int, n)
	if parent != nil {
		copy(t.vc, parent.vc)
		parent.vc[parent.ID]++
	}
	t.vc[t.ID] = 1
	e.threads = append(e.threads, t)
	return t
}

func (e *Exec) spawn(parent *Thread, clo *Closure, args []Value) {
	if clo == nil {
		e.goPanic("go of nil func value")
	}
	name := "go"
	if clo.Fn != nil {
		name = fnName(clo.Fn)
	}
	t := e.newThread(name, parent)
	if clo.Fn == nil || e.isStub(clo.Fn) {
		// a goroutine that runs a single intrinsic: wrap in a pseudo frame
		t.Frames = append(t.Frames, e.intrinsicFrame(clo, args))
		return
	}
	e.pushCall(t, clo, args, nil, retGo)
}

// intrinsicFrame builds a frame over a synthetic one-instruction function that
// performs the intrinsic call. We reuse the engine's call machinery by keeping
// the closure and arguments in the frame and handling it in step via onlyCall.
func (e *Exec) intrinsicFrame(clo *Closure, args []Value) *Frame {
	return &Frame{Ret: retGo, onlyCall: &deferred{clo: clo, args: args}}
}

func (e *Exec) newChan(capacity int, t types.Type) *Chan {
	e.nextObj++
	e.memVer++
	return &Chan{ID: e.nextObj, Cap: capacity, T: t}
}

func (e *Exec) threadExit(t *Thread) {
	if t.panicking != nil {
		t.diedPanic = t.panicking
	}
}

// ---- vector clocks / happens-before ---------------------------------------------------------

type access struct {
	tid   int
	clock int
	site  string
	write bool
}

type accState struct {
	lastW *access
	reads []*access
}

func vcJoin(dst *[]int, src []int) {
	for len(*dst) < len(src) {
		*dst = append(*dst, 0)
	}
	for i, v := range src {
		if v > (*dst)[i] {
			(*dst)[i] = v
		}
	}
}

func vcCopy(v []int) []int { return append([]int(nil), v...) }

func (e *Exec) vcOf(t *Thread, tid int) int {
	if tid < len(t.vc) {
		return t.vc[tid]
	}
	return 0
}

func (e *Exec) noteAccess(p Ptr, write bool) {
	if !e.raceCheck || e.cur == nil || len(e.threads) < 2 || p.Obj == nil {
		return
	}
	if !e.raceTracked(p.Obj) {
		return
	}
	t := e.cur
	key := accKey{p.Obj, -1}
	if len(p.Path) > 0 {
		if _, ok := p.Obj.V.(*Struct); ok {
			key.field = p.Path[0]
		}
	}
	st := e.acc[key]
	if st == nil {
		st = &accState{}
		if e.acc == nil {
			e.acc = map[accKey]*accState{}
		}
		e.acc[key] = st
	}
	a := &access{tid: t.ID, clock: t.vc[t.ID], site: e.where(), write: write}
	hb := func(o *access) bool { return o.tid == t.ID || e.vcOf(t, o.tid) >= o.clock }
	if st.lastW != nil && !hb(st.lastW) {
		e.reportRace(p, st.lastW, a)
	}
	if write {
		for _, r := range st.reads {
			if !hb(r) {
				e.reportRace(p, r, a)
			}
		}
		st.lastW = a
		st.reads = nil
	} else {
		// keep one read per thread
		for i, r := range st.reads {
			if r.tid == t.ID {
				st.reads[i] = a
				return
			}
		}
		st.reads = append(st.reads, a)
	}
}

// raceTracked: the happens-before check covers the library's client state (Tunnel, Router),
// not harness bookkeeping.
func (e *Exec) raceTracked(o *Object) bool {
	if o.LibGlobal {
		return true
	}
	if o.T == nil {
		return false
	}
	n, ok := o.T.(*types.Named)
	if !ok {
		return false
	}
	if n.Obj().Pkg() == nil {
		return false
	}
	switch n.Obj().Pkg().Name() {
	case "knx":
		return n.Obj().Name() == "Tunnel" || n.Obj().Name() == "Router"
	case "dpt":
		return strings.HasPrefix(n.Obj().Name(), "DPT_") // datapoint instances (C19: instances share no state)
	}
	return false
}

type accKey struct {
	obj   *Object
	field int
}

func (e *Exec) reportRace(p Ptr, a, b *access) {
	name := p.Obj.Name
	if st, ok := p.Obj.V.(*Struct); ok && len(p.Path) > 0 && p.Obj.T != nil {
		_ = st
		if s, ok := p.Obj.T.Underlying().(*types.Struct); ok {
			name = p.Obj.T.String() + "." + s.Field(p.Path[0]).Name()
		}
	}
	kind := func(x *access) string {
		if x.write {
			return "write"
		}
		return "read"
	}
	detail := fmt.Sprintf("%s: %s at %s vs %s at %s", name, kind(a), a.site, kind(b), b.site)
	for _, k := range e.Cfg.KnownRaces {
		if strings.Contains(detail, k) {
			if e.knownRaces == nil {
				e.knownRaces = map[string]bool{}
			}
			e.knownRaces[detail] = true
			return
		}
	}
	panic(pathEnd{kind: "race", detail: detail, site: b.site})
}

func (e *Exec) tick(t *Thread) { t.vc[t.ID]++ }

// ---- scheduler -----------------------------------------------------------------------------------

type transition struct {
	t       *Thread
	caseIdx int     // select case of t (or -1), -2 = default
	partner *Thread // rendezvous partner (receiver)
	pcase   int     // partner's select case or -1
	timer   *Timer
}

func (e *Exec) advance(t *Thread) {
	e.cur = t
	for t.state == tsRunning {
		switch e.step(t, false) {
		case stPark:
			t.state = tsParked
		case stDone:
			t.state = tsDone
		}
	}
}

// caseReady tells whether a channel operation can complete without a partner thread.
func chanSendReady(ch *Chan) bool {
	return ch != nil && (ch.Closed || len(ch.Buf) < ch.Cap)
}
func chanRecvReady(ch *Chan) bool {
	return ch != nil && (ch.Closed || len(ch.Buf) > 0)
}

// receiversOn lists (thread, case) pairs parked on a receive of ch.
func (e *Exec) receiversOn(ch *Chan, except *Thread) []transition {
	var out []transition
	for _, r := range e.threads {
		if r == except || r.state != tsParked || r.pend == nil {
			continue
		}
		switch r.pend.kind {
		case pkRecv:
			if r.pend.ch == ch {
				out = append(out, transition{partner: r, pcase: -1})
			}
		case pkSelect:
			for j, cs := range r.pend.cases {
				if !cs.send && cs.ch == ch {
					out = append(out, transition{partner: r, pcase: j})
				}
			}
		}
	}
	return out
}

func (e *Exec) sendersOn(ch *Chan, except *Thread) bool {
	for _, s := range e.threads {
		if s == except || s.state != tsParked || s.pend == nil {
			continue
		}
		switch s.pend.kind {
		case pkSend:
			if s.pend.ch == ch {
				return true
			}
		case pkSelect:
			for _, cs := range s.pend.cases {
				if cs.send && cs.ch == ch {
					return true
				}
			}
		}
	}
	return false
}

func (e *Exec) timeLE(a, b *term.T) bool {
	return e.Branch(e.C.Cmp(term.OpSLe, a, b), "time")
}

func (e *Exec) enabled() []transition {
	var out []transition
	for _, t := range e.threads {
		if t.state != tsParked || t.pend == nil {
			continue
		}
		p := t.pend
		switch p.kind {
		case pkSend:
			if chanSendReady(p.ch) {
				out = append(out, transition{t: t, caseIdx: -1})
			} else if p.ch != nil && p.ch.Cap == 0 {
				for _, r := range e.receiversOn(p.ch, t) {
					r.t, r.caseIdx = t, -1
					out = append(out, r)
				}
			}
		case pkRecv:
			if chanRecvReady(p.ch) {
				out = append(out, transition{t: t, caseIdx: -1})
			}
		case pkSelect:
			any := false
			for i, cs := range p.cases {
				if cs.ch == nil {
					continue
				}
				if cs.send {
					if chanSendReady(cs.ch) {
						out = append(out, transition{t: t, caseIdx: i})
						any = true
					} else if cs.ch.Cap == 0 {
						for _, r := range e.receiversOn(cs.ch, t) {
							r.t, r.caseIdx = t, i
							out = append(out, r)
							any = true
						}
					}
				} else {
					if chanRecvReady(cs.ch) {
						out = append(out, transition{t: t, caseIdx: i})
						any = true
					} else if cs.ch.Cap == 0 && e.sendersOn(cs.ch, t) {
						any = true // enumerated from the sender's side
					}
				}
			}
			if p.hasDef && !any {
				out = append(out, transition{t: t, caseIdx: -2})
			}
		case pkLock:
			if !e.mutexLocked(p.mu) && (!e.mutexFIFO || e.firstWaiter(t, p.mu)) {
				out = append(out, transition{t: t, caseIdx: -1})
			}
		case pkWait:
			if e.wgZero(p.mu) {
				out = append(out, transition{t: t, caseIdx: -1})
			}
		case pkOnce:
			if !e.onceBusy(p.mu) {
				out = append(out, transition{t: t, caseIdx: -1})
			}
		case pkSleep:
			if !p.timer.Active {
				out = append(out, transition{t: t, caseIdx: -1})
			}
		case pkQuiesce:
			// enabled only when nothing else can move; handled by the caller
		default:
			out = append(out, transition{t: t, caseIdx: -1})
		}
	}
	// expired timers
	for _, tm := range e.timers {
		if tm.Active && e.timeLE(tm.Deadline, e.nowT()) {
			out = append(out, transition{timer: tm})
		}
	}
	return out
}

func (e *Exec) nowT() *term.T {
	if e.now == nil {
		e.now = e.C.BVConst(64, 0)
	}
	return e.now
}

// schedule runs all threads until the main thread finishes; returns the outcome.
func (e *Exec) schedule() (kind, detail, site string) {
	main := e.threads[0]
	var last *Thread
	preempt := 0
	for {
		for i := 0; i < len(e.threads); i++ { // threads may be appended while advancing
			t := e.threads[i]
			if t.state == tsRunning {
				e.advance(t)
			}
			if t.state == tsDone && t.diedPanic != nil && !t.reported {
				t.reported = true
				ps := t.diedPanic
				return "panic", ps.msg, ps.site
			}
		}
		if main.state == tsDone {
			return "ok", "", ""
		}
		en := e.enabled()
		if len(en) == 0 {
			// quiescence requests
			q := false
			for _, t := range e.threads {
				if t.state == tsParked && t.pend != nil && t.pend.kind == pkQuiesce {
					t.pend = nil
					t.quiesced = true
					e.cur = t
					t.state = tsRunning
					q = true
					break
				}
			}
			if q {
				continue
			}
			if e.advanceClock() {
				continue
			}
			// nothing can move
			return "deadlock", e.describeBlocked(), ""
		}
		// context bound: prefer continuing the last thread
		k := 0
		if len(en) > 1 {
			cands := en
			// ContextBound < 0: no preemption at all (the running thread continues while it can; a
			// choice remains only when it blocks or ends and several others are enabled)
			// ContextBound == -2: one schedule only - no preemption, and where the running thread
			// blocks or ends the first enabled transition is taken (for histories of hundreds of steps,
			// where even the choices at blocking points multiply beyond reach; data stays symbolic)
			if (e.Cfg.ContextBound > 0 && last != nil && preempt >= e.Cfg.ContextBound) || (e.Cfg.ContextBound < 0 && last != nil) {
				var same []transition
				for _, tr := range en {
					if tr.t == last {
						same = append(same, tr)
					}
				}
				if len(same) > 0 {
					cands = same
				}
			}
			// order: transitions of the last thread first (so option 0 is "no preemption")
			if last != nil {
				var a, b []transition
				for _, tr := range cands {
					if tr.t == last {
						a = append(a, tr)
					} else {
						b = append(b, tr)
					}
				}
				cands = append(a, b...)
			}
			if e.Cfg.ContextBound != -2 {
				k = e.Choose(len(cands), "sched")
			}
			en = cands
		}
		tr := en[k]
		e.schedSteps++
		e.Stats.SchedSteps++
		if e.schedSteps > e.Cfg.MaxSched {
			return "unwind", "scheduler step bound", ""
		}
		if tr.timer != nil {
			e.fireTimer(tr.timer)
			continue
		}
		if last != nil && tr.t != last && last.state == tsParked {
			// was last still enabled?
			for _, o := range en {
				if o.t == last {
					preempt++
					break
				}
			}
		}
		last = tr.t
		e.perform(tr)
	}
}

func (e *Exec) describeBlocked() string {
	s := ""
	for _, t := range e.threads {
		if t.state == tsParked {
			w := ""
			if len(t.Frames) > 0 {
				f := e.top(t)
				if f.Block != nil && f.IP < len(f.Block.Instrs) {
					w = e.posOf(f.Block.Instrs[f.IP])
				}
			}
			s += fmt.Sprintf("T%d(%s)@%s ", t.ID, t.Name, w)
		}
	}
	return s
}

// advanceClock moves virtual time to the earliest pending deadline.
func (e *Exec) advanceClock() bool {
	var best *Timer
	for _, tm := range e.timers {
		if !tm.Active {
			continue
		}
		if best == nil || !e.timeLE(best.Deadline, tm.Deadline) {
			best = tm
		}
	}
	if best == nil {
		return false
	}
	e.now = best.Deadline
	e.memVer++
	return true
}

func (e *Exec) perform(tr transition) {
	t := tr.t
	e.cur = t
	e.grant = &tr
	t.state = tsRunning
	t.pend = nil
	r := e.step(t, true)
	e.grant = nil
	switch r {
	case stPark:
		if t.pend == nil || t.pend.kind != pkLock || !e.mutexFIFO {
			panic("granted operation parked again: " + e.where())
		}
		t.state = tsParked // FIFO policy: the arrival at Lock was the granted step, the acquisition is the next
	case stDone:
		t.state = tsDone
	}
}

// ---- channel operations -------------------------------------------------------------------------------

func (e *Exec) sendOp(t *Thread, f *Frame, x *ssa.Send, granted bool) stepRes {
	ch := e.get(f, x.Chan).(*Chan)
	v := copyVal(e.get(f, x.X))
	if !granted {
		t.pend = &pending{kind: pkSend, ch: ch, val: v}
		return stPark
	}
	e.doSend(t, ch, v, e.grant.partner, e.grant.pcase)
	f.IP++
	return stCont
}

// doSend performs a send that the scheduler found enabled.
func (e *Exec) doSend(t *Thread, ch *Chan, v Value, partner *Thread, pcase int) {
	if ch.Closed {
		e.goPanic("send on closed channel")
	}
	e.tick(t)
	if partner != nil {
		e.deliver(partner, pcase, v, true, t)
		return
	}
	ch.Buf = append(ch.Buf, v)
	ch.vcSend = append(ch.vcSend, vcCopy(t.vc))
	e.memVer++
}

// deliver completes a parked receiver's operation with value v.
func (e *Exec) deliver(r *Thread, pcase int, v Value, ok bool, from *Thread) {
	rf := e.top(r)
	in := rf.Block.Instrs[rf.IP]
	okT := e.C.BoolConst(ok)
	if from != nil {
		vcJoin(&r.vc, from.vc)
		vcJoin(&from.vc, r.vc) // unbuffered: synchronisation both ways
	}
	e.tick(r)
	switch x := in.(type) {
	case *ssa.UnOp:
		if x.CommaOk {
			rf.L[x] = Tuple{v, okT}
		} else {
			rf.L[x] = v
		}
	case *ssa.Select:
		rf.L[x] = e.selectResult(x, pcase, v, okT)
	default:
		panic("deliver: receiver not at a receive")
	}
	rf.IP++
	r.pend = nil
	r.state = tsRunning
}

func (e *Exec) recvOp(t *Thread, f *Frame, x *ssa.UnOp, granted bool) stepRes {
	ch := e.get(f, x.X).(*Chan)
	if !granted {
		t.pend = &pending{kind: pkRecv, ch: ch}
		return stPark
	}
	v, ok := e.doRecv(t, ch, x.Type())
	if x.CommaOk {
		f.L[x] = Tuple{v, e.C.BoolConst(ok)}
	} else {
		f.L[x] = v
	}
	f.IP++
	return stCont
}

func (e *Exec) doRecv(t *Thread, ch *Chan, rt types.Type) (Value, bool) {
	e.tick(t)
	if len(ch.Buf) > 0 {
		v := ch.Buf[0]
		ch.Buf = ch.Buf[1:]
		vcJoin(&t.vc, ch.vcSend[0])
		ch.vcSend = ch.vcSend[1:]
		e.memVer++
		return v, true
	}
	if ch.Closed {
		vcJoin(&t.vc, ch.vcClose)
		et := ch.T.Underlying().(*types.Chan).Elem()
		return e.zero(et), false
	}
	panic("doRecv on a channel that is not ready")
}

func (e *Exec) closeChan(t *Thread, ch *Chan) {
	if ch == nil {
		e.goPanic("close of nil channel")
	}
	if ch.Closed {
		e.goPanic("close of closed channel")
	}
	e.tick(t)
	ch.Closed = true
	ch.vcClose = vcCopy(t.vc)
	e.memVer++
}

func (e *Exec) selectResult(x *ssa.Select, idx int, recvVal Value, recvOk *term.T) Value {
	// result tuple: (index int, recvOk bool, r_0 T_0, ... r_n-1 T_n-1) for the receive states
	tup := x.Type().(*types.Tuple)
	res := make(Tuple, tup.Len())
	res[0] = e.C.BVConst(64, uint64(int64(idx)))
	res[1] = e.C.False
	if recvOk != nil {
		res[1] = recvOk
	}
	k := 2
	for i, st := range x.States {
		if st.Dir == types.RecvOnly {
			if i == idx && recvVal != nil {
				res[k] = recvVal
			} else {
				res[k] = e.zero(tup.At(k).Type())
			}
			k++
		}
	}
	return res
}

func (e *Exec) selectOp(t *Thread, f *Frame, x *ssa.Select, granted bool) stepRes {
	if !granted {
		p := &pending{kind: pkSelect, hasDef: !x.Blocking}
		for _, st := range x.States {
			cs := selCase{send: st.Dir == types.SendOnly, ch: e.get(f, st.Chan).(*Chan)}
			if cs.send {
				cs.val = copyVal(e.get(f, st.Send))
			}
			p.cases = append(p.cases, cs)
		}
		t.pend = p
		t.pendCases = p.cases
		return stPark
	}
	g := e.grant
	cases := t.pendCases
	switch {
	case g.caseIdx == -2:
		f.L[x] = e.selectResult(x, -1, nil, nil)
	case cases[g.caseIdx].send:
		cs := cases[g.caseIdx]
		e.doSend(t, cs.ch, cs.val, g.partner, g.pcase)
		f.L[x] = e.selectResult(x, g.caseIdx, nil, nil)
	default:
		cs := cases[g.caseIdx]
		v, ok := e.doRecv(t, cs.ch, nil)
		f.L[x] = e.selectResult(x, g.caseIdx, v, e.C.BoolConst(ok))
	}
	f.IP++
	return stCont
}

// ---- sync primitives (objects are the real sync.Mutex / WaitGroup / Once structs) -----------------------

type lockEvent struct {
	tid int
	at  *term.T
	arr int // event number of the arrival at Lock
	seq int // event number of the acquisition
}

type syncState struct {
	acq    []lockEvent
	locked bool
	count  int64
	done   bool
	busy   bool
	vc     []int
}

func (e *Exec) sync(o *Object) *syncState {
	if e.syncs == nil {
		e.syncs = map[string]*syncState{}
	}
	k := fmt.Sprintf("%p", o)
	s := e.syncs[k]
	if s == nil {
		s = &syncState{}
		e.syncs[k] = s
	}
	return s
}

// syncKey maps a pointer to a sync primitive (possibly a struct field) to a unique object key.
func (e *Exec) syncObj(p Ptr) *Object {
	if p.IsNil() {
		e.goPanic("nil pointer dereference")
	}
	if len(p.Path) == 0 {
		return p.Obj
	}
	if e.syncFields == nil {
		e.syncFields = map[string]*Object{}
	}
	k := fmt.Sprintf("%p%v", p.Obj, p.Path)
	o := e.syncFields[k]
	if o == nil {
		o = &Object{ID: -1, Name: k}
		e.syncFields[k] = o
	}
	return o
}

// firstWaiter: under the FIFO hand-off policy (what sync.Mutex guarantees in starvation mode) a free
// mutex goes to the goroutine that arrived at Lock first.
func (e *Exec) firstWaiter(t *Thread, mu *Object) bool {
	for _, o := range e.threads {
		if o != t && o.state == tsParked && o.pend != nil && o.pend.kind == pkLock && o.pend.mu == mu && o.lockArr < t.lockArr {
			return false
		}
	}
	return true
}

func (e *Exec) mutexLocked(o *Object) bool { return e.sync(o).locked }
func (e *Exec) wgZero(o *Object) bool      { return e.sync(o).count == 0 }
func (e *Exec) onceBusy(o *Object) bool    { return e.sync(o).busy }

// ---- timers ------------------------------------------------------------------------------------------------

func (e *Exec) newTimer(d *term.T) *Timer {
	e.nextTimer++
	tm := &Timer{ID: e.nextTimer, Deadline: e.C.Bin(term.OpAdd, e.nowT(), d), Active: true}
	if e.cur != nil {
		tm.vc = vcCopy(e.cur.vc)
	}
	e.timers = append(e.timers, tm)
	e.memVer++
	return tm
}

func (e *Exec) fireTimer(tm *Timer) {
	e.memVer++
	switch {
	case tm.Sleeper != nil:
		tm.Active = false
	case tm.Fn != nil:
		tm.Active = false
		t := e.newThread("timer:"+fnName(tm.Fn.Fn), nil)
		vcJoin(&t.vc, tm.vc)
		e.pushCall(t, tm.Fn, nil, nil, retGo)
	case tm.Ch != nil:
		if len(tm.Ch.Buf) < tm.Ch.Cap {
			// the value is the time; we deliver the deadline as a time.Time zero value
			tm.Ch.Buf = append(tm.Ch.Buf, e.zero(tm.Ch.T.Underlying().(*types.Chan).Elem()))
			tm.Ch.vcSend = append(tm.Ch.vcSend, vcCopy(tm.vc))
		}
		if tm.Period != nil {
			tm.Deadline = e.C.Bin(term.OpAdd, tm.Deadline, tm.Period)
		} else {
			tm.Active = false
		}
	}
}
