//go:build verif

package knx

import (
	"errors"
	"fmt"
	"math"
	"strconv"
	"strings"
	"sync"
	"sync/atomic"
	"time"
)

var errSelfTest = errors.New("selftest")

func init() {
	verifHarnesses["HarnessSelfTestConc"] = HarnessSelfTestConc
}

// HarnessSelfTestConc: a = {program}: small concurrent programs whose observable result does not
// depend on the schedule. The engine explores every interleaving (each path must end with the same
// observations) and every sampled path is replayed natively: this validates the engine's model of
// channels, select, close, recover, Mutex, WaitGroup and Once against the Go runtime.
func HarnessSelfTestConc(a []int) {
	x := int(nondetU8())
	switch a[0] {
	case 0: // unbuffered ping-pong, WaitGroup
		ping, pong := make(chan int), make(chan int)
		var wg sync.WaitGroup
		wg.Add(2)
		sum := 0
		go func() {
			defer wg.Done()
			for v := range ping {
				pong <- v + 1
			}
			close(pong)
		}()
		go func() {
			defer wg.Done()
			for i := 0; i < 3; i++ {
				ping <- x + i
				sum += <-pong
			}
			close(ping)
		}()
		wg.Wait()
		_, open := <-pong
		verifObserve("sum", sum)
		verifObserve("open", open)
		verifAssert("self.pingpong", sum == 3*x+6 && !open)
	case 1: // buffered pipeline, select with default, send on closed channel recovered
		ch := make(chan int, 2)
		done := make(chan struct{})
		total := 0
		go func() {
			for v := range ch {
				total += v
			}
			close(done)
		}()
		for i := 1; i <= 4; i++ {
			ch <- x * i
		}
		close(ch)
		<-done
		recovered := false
		func() {
			defer func() {
				if recover() != nil {
					recovered = true
				}
			}()
			ch <- 1
		}()
		full := make(chan int, 1)
		full <- 1
		took := 0
		select {
		case full <- 2:
			took = 1
		default:
			took = 2
		}
		select {
		case v, ok := <-ch:
			if !ok && v == 0 {
				took += 10
			}
		default:
			took += 20
		}
		verifObserve("total", total)
		verifObserve("took", took)
		verifAssert("self.pipeline", total == 10*x && recovered && took == 12)
	case 2: // Mutex, Once, WaitGroup
		var mu sync.Mutex
		var once sync.Once
		var wg sync.WaitGroup
		count, inits := 0, 0
		for i := 0; i < 2; i++ {
			wg.Add(1)
			go func() {
				defer wg.Done()
				once.Do(func() { inits++ })
				mu.Lock()
				count += x
				mu.Unlock()
			}()
		}
		wg.Wait()
		verifObserve("count", count)
		verifObserve("inits", inits)
		verifAssert("self.mutex_once", count == 2*x && inits == 1)
	case 3: // panic in a deferred chain, recover returns the value, named result survives
		f := func() (r int) {
			defer func() {
				if v := recover(); v != nil {
					r = v.(int) + 1
				}
			}()
			defer func() { r = 100 }()
			panic(x)
		}
		r := f()
		verifObserve("r", r)
		verifAssert("self.recover", r == x+1)
	case 4: // sync/atomic and RWMutex
		var n int32
		var flag atomic.Bool
		var rw sync.RWMutex
		var wg sync.WaitGroup
		shared := 0
		for i := 0; i < 2; i++ {
			wg.Add(1)
			go func() {
				defer wg.Done()
				atomic.AddInt32(&n, int32(x))
				flag.Store(true)
				rw.Lock()
				shared++
				rw.Unlock()
			}()
		}
		wg.Wait()
		rw.RLock()
		got := shared
		rw.RUnlock()
		swapped := atomic.CompareAndSwapInt32(&n, int32(2*x), 7)
		verifObserve("n", atomic.LoadInt32(&n))
		verifAssert("self.atomic", swapped && atomic.LoadInt32(&n) == 7 && flag.Load() && got == 2)
	case 5: // math helpers on a symbolic float, errors.Is, strings.Builder, Timer
		f := float64(int(x)-100) / 8
		verifObserve("floor", math.Floor(f))
		verifObserve("ceil", math.Ceil(f))
		verifObserve("round", math.Round(f))
		verifObserve("trunc", math.Trunc(f))
		verifObserve("abs", math.Abs(f))
		var sb strings.Builder
		sb.WriteString("ab")
		sb.WriteByte(byte('0' + x%10))
		verifObserve("len", len(sb.String()))
		tm := time.NewTimer(time.Millisecond)
		<-tm.C
		stopped := tm.Stop()
		tm.Reset(time.Hour)
		verifAssert("self.misc", errors.Is(errSelfTest, errSelfTest) && !stopped && tm.Stop() && math.Floor(f) <= f && f <= math.Ceil(f))
	}
	verifCover("self.end")
}

func init() {
	verifHarnesses["HarnessSelfTestClock"] = HarnessSelfTestClock
}

// HarnessSelfTestClock: time.Now / Since / Sub / Add / Before / After on the virtual clock agree with
// the durations slept (engine model of wall-clock reads; native runs are not comparable).
func HarnessSelfTestClock(a []int) {
	t0 := time.Now()
	verifSleep(int64(30 * time.Millisecond))
	t1 := time.Now()
	verifAssert("self.clock.since", time.Since(t0) == 30*time.Millisecond)
	verifAssert("self.clock.sub", t1.Sub(t0) == 30*time.Millisecond && t0.Sub(t1) == -30*time.Millisecond)
	verifAssert("self.clock.order", t0.Before(t1) && t1.After(t0) && !t1.Before(t0) && !t0.Equal(t1))
	t2 := t0.Add(30 * time.Millisecond)
	verifAssert("self.clock.add", t2.Equal(t1) && !t2.After(t1) && t2.Sub(t0) == 30*time.Millisecond)
	verifAssert("self.clock.until", time.Until(t0.Add(time.Second)) == 970*time.Millisecond)
	done := false
	timer := time.NewTimer(20*time.Millisecond - time.Since(t1))
	<-timer.C
	done = true
	verifAssert("self.clock.timer", done && time.Since(t0) == 50*time.Millisecond)
	verifCover("self.clock.end")
}

func init() {
	verifHarnesses["HarnessSelfTestPool"] = HarnessSelfTestPool
}

var selfPool = sync.Pool{New: func() interface{} { b := make([]byte, 4); return &b }}

// HarnessSelfTestPool: the sync.Pool model: New on an empty pool, the last item put back is handed
// out again.
func HarnessSelfTestPool(a []int) {
	p1 := selfPool.Get().(*[]byte)
	p2 := selfPool.Get().(*[]byte)
	verifAssert("self.pool.new", p1 != p2 && len(*p1) == 4)
	(*p1)[0] = 7
	selfPool.Put(p1)
	p3 := selfPool.Get().(*[]byte)
	verifAssert("self.pool.reuse", p3 == p1 && (*p3)[0] == 7)
	var empty sync.Pool
	verifAssert("self.pool.nil_without_new", empty.Get() == nil)
	verifCover("self.pool.end")
}

func init() {
	verifHarnesses["HarnessSelfTestErrors"] = HarnessSelfTestErrors
}

var errSelfSentinel = errors.New("sentinel")

// HarnessSelfTestErrors: fmt.Errorf("%w") / errors.Is / errors.Unwrap model.
func HarnessSelfTestErrors(a []int) {
	w1 := fmt.Errorf("outer: %w", errSelfSentinel)
	w2 := fmt.Errorf("outermost %d: %w", 3, w1)
	plain := fmt.Errorf("no wrapping: %v", errSelfSentinel)
	verifAssert("self.errors.is", errors.Is(w1, errSelfSentinel) && errors.Is(w2, errSelfSentinel) && errors.Is(w2, w1))
	verifAssert("self.errors.is_not", !errors.Is(plain, errSelfSentinel) && !errors.Is(errSelfSentinel, w1) && !errors.Is(nil, errSelfSentinel))
	verifAssert("self.errors.unwrap", errors.Unwrap(w1) == errSelfSentinel && errors.Unwrap(w2) == w1 && errors.Unwrap(plain) == nil)
	verifCover("self.errors.end")
}

func init() {
	verifHarnesses["HarnessSelfTestFormat"] = HarnessSelfTestFormat
}

type selfNum uint8

func (n selfNum) String() string { return fmt.Sprintf("num %d", n) } // %d does not consult String: no recursion

type selfErr uint8

var selfErrCalls int

func (e selfErr) Error() string { selfErrCalls++; return "self error" }

// HarnessSelfTestFormat: the fmt model calls Error/String of an operand exactly for the verbs that are
// valid for strings (%v %s %q %x %X, and Sprint), as package fmt does; validated natively.
func HarnessSelfTestFormat(a []int) {
	_ = selfNum(3).String()
	selfErrCalls = 0
	_ = fmt.Sprintf("%d %5.2f", selfErr(1), 1.5)
	verifAssert("self.format.numeric_verbs_do_not_call", selfErrCalls == 0)
	_ = fmt.Sprintf("%#x", selfErr(1))
	_ = fmt.Errorf("status %v", selfErr(2))
	_ = fmt.Sprint(selfErr(3))
	verifAssert("self.format.string_verbs_call", selfErrCalls == 3)
	verifCover("self.format.end")
}

func init() {
	verifHarnesses["HarnessSelfTestParse"] = HarnessSelfTestParse
}

// HarnessSelfTestParse: a = {length, signed}: the summary of strconv.ParseInt/ParseUint (base 10,
// symbolic characters) against an independent definition; every byte string of the given length.
func HarnessSelfTestParse(a []int) {
	n, signed := a[0], a[1] == 1
	bs := nondetBytes(n)
	s := string(bs)
	// reference: optional sign, then digits only; value by Horner; range of 16 bits
	i, neg := 0, false
	if signed && n > 0 && (bs[0] == '+' || bs[0] == '-') {
		neg = bs[0] == '-'
		i = 1
	}
	valid := i < n
	ref := int64(0)
	for ; i < n; i++ {
		if bs[i] < '0' || bs[i] > '9' {
			valid = false
			break
		}
		ref = ref*10 + int64(bs[i]-'0')
	}
	if neg {
		ref = -ref
	}
	if signed {
		v, err := strconv.ParseInt(s, 10, 16)
		inRange := ref >= -32768 && ref <= 32767
		verifAssert("self.parse.int.ok_iff", (err == nil) == (valid && inRange))
		if err == nil {
			verifAssert("self.parse.int.value", v == ref)
		} else if valid {
			verifAssert("self.parse.int.clamped", (ref > 0 && v == 32767) || (ref < 0 && v == -32768))
		}
	} else {
		v, err := strconv.ParseUint(s, 10, 16)
		verifAssert("self.parse.uint.ok_iff", (err == nil) == (valid && ref <= 65535))
		if err == nil {
			verifAssert("self.parse.uint.value", int64(v) == ref)
		} else if valid {
			verifAssert("self.parse.uint.clamped", v == 65535)
		}
	}
	verifCover("self.parse.end")
}

func init() {
	verifHarnesses["HarnessSelfTestItoa"] = HarnessSelfTestItoa
}

// HarnessSelfTestItoa: the decimal formatter behind strconv.Itoa/FormatUint/AppendUint for every
// 16-bit value: parsing the text back gives the value, no leading zero, same text from all three.
func HarnessSelfTestItoa(a []int) {
	v := nondetU16()
	s1 := strconv.Itoa(int(v))
	s2 := strconv.FormatUint(uint64(v), 10)
	s3 := string(strconv.AppendUint([]byte("x"), uint64(v), 10))
	verifAssert("self.itoa.same", s1 == s2 && s3 == "x"+s1)
	verifAssert("self.itoa.shape", len(s1) >= 1 && len(s1) <= 5 && (len(s1) == 1 || s1[0] != '0'))
	back := 0
	for i := 0; i < len(s1); i++ {
		verifAssert("self.itoa.digit", s1[i] >= '0' && s1[i] <= '9')
		back = back*10 + int(s1[i]-'0')
	}
	verifAssert("self.itoa.value", back == int(v))
	verifCover("self.itoa.end")
}
