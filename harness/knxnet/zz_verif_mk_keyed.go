//go:build verif

package knxnet

import "net"

func init() {
	verifNewTunnelSocket = func(conn net.Conn, inbound <-chan Service) *TunnelSocket {
		return &TunnelSocket{conn: conn, inbound: inbound}
	}
	verifNewRouterSocket = func(conn *net.UDPConn, addr *net.UDPAddr, inbound <-chan Service) *RouterSocket {
		return &RouterSocket{conn: conn, addr: addr, inbound: inbound}
	}
}
