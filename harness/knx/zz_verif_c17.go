//go:build verif

package knx

import (
	"github.com/vapourismo/knx-go/knx/cemi"
	"github.com/vapourismo/knx-go/knx/knxnet"
)

func init() {
	verifHarnesses["HarnessC17BB"] = HarnessC17BB
}

func c17Msgs(k int) []cemi.Message {
	msgs := make([]cemi.Message, k)
	for i := range msgs {
		msgs[i] = &cemi.LDataInd{LData: cemi.LData{Control2: cemi.Control2GroupAddr, Destination: uint16(i + 1),
			Data: &cemi.AppData{Command: cemi.GroupValueWrite, Data: []byte{byte(i)}}}}
	}
	return msgs
}

// HarnessC17BB: a = {client, k telegrams, consumer mode} as HarnessC17 (zz_verif_c17_wb.go), for the
// clients that are built by their real constructors and fed through their sockets - 1 router
// (NewRouter), 5/6 tunnel (NewTunnel, UDP/TCP), 7 group tunnel (NewGroupTunnel: order of the group
// events). No unexported identifier of the clients is named here.
func HarnessC17BB(a []int) {
	client := a[0]
	var inbound <-chan cemi.Message
	var events <-chan GroupEvent
	var push func(cemi.Message)
	switch client {
	case 1:
		r, in := newRouterEnv(2, 0)
		inbound = r.Inbound()
		push = func(m cemi.Message) { in <- &knxnet.RoutingInd{Payload: m} }
	case 5, 6:
		conn, g, c := newBBTunnel(client == 6)
		var seq uint8
		inbound = conn.Inbound()
		push = func(m cemi.Message) {
			g.in <- &knxnet.TunnelReq{Channel: c, SeqNumber: seq, Payload: m}
			seq++
		}
	default:
		gt, g, c := newBBGroupTunnelCh()
		var seq uint8
		events = gt.Inbound()
		push = func(m cemi.Message) {
			g.in <- &knxnet.TunnelReq{Channel: c, SeqNumber: seq, Payload: m}
			seq++
		}
	}
	c17Core(a, inbound, events, push)
}

// c17Core: the server side accepts m1..mk in order (through push); the application must see them in
// that order, whatever the consumer does (mode: 0 always waiting, 1 absent during the burst, 2 takes
// one telegram then stalls, 3 takes one, stalls and resumes in the middle of the burst, 4 takes one,
// stalls, takes exactly three more out of the backlog after a quarter of the burst and stalls again
// until the end - so the queue is grown further while its head is no longer at the start). events is
// set when the application reads group events instead of cEMI messages.
func c17Core(a []int, inbound <-chan cemi.Message, events <-chan GroupEvent, push func(cemi.Message)) {
	client, k, mode := a[0], a[1], a[2]
	msgs := c17Msgs(k)
	var order []int
	gate := make(chan struct{})
	permit := make(chan struct{}) // mode 4: one telegram per permit; closed = free run
	group := events != nil
	if len(a) > 3 && a[3] == 1 {
		// warm-up: one telegram is accepted while nobody reads, parks in the overflow queue and is then
		// taken - the burst below meets the queue in the state a longer history leaves behind
		w := &cemi.LDataInd{LData: cemi.LData{Control2: cemi.Control2GroupAddr, Destination: 999,
			Data: &cemi.AppData{Command: cemi.GroupValueWrite, Data: []byte{0}}}}
		go push(w)
		verifQuiesce()
		if group {
			ev := <-events
			verifAssert("C17.warmup", ev.Destination == 999)
		} else {
			m := <-inbound
			verifAssert("C17.warmup", m.(*cemi.LDataInd).Destination == 999)
		}
		verifQuiesce()
	}
	consume := func(next func() (int, bool)) {
		verifDaemon()
		n := 0
		for {
			if mode == 1 || ((mode == 2 || mode == 3) && n == 1) {
				<-gate // stalled until the burst is over (mode 3: until the server is half way through)
			}
			if mode == 4 && n >= 1 {
				<-permit
			}
			id, ok := next()
			if !ok {
				return
			}
			order = append(order, id)
			n++
		}
	}
	var held [][]byte // the application keeps the payload of every event it was given
	if group {
		go consume(func() (int, bool) {
			ev, ok := <-events
			if ok {
				held = append(held, ev.Data)
			}
			return int(ev.Destination), ok
		})
	} else {
		go consume(func() (int, bool) {
			m, ok := <-inbound
			if !ok {
				return 0, false
			}
			return int(m.(*cemi.LDataInd).Destination), true
		})
	}
	if group {
		go func() {
			for _, m := range msgs {
				push(m)
			}
		}()
		if mode != 0 {
			verifQuiesce()
		}
	} else {
		for i, m := range msgs {
			if mode == 3 && i == (k+1)/2 {
				close(gate)
			}
			if mode == 4 && i == k/4 {
				for j := 0; j < 3; j++ {
					permit <- struct{}{}
				}
				verifQuiesce()
				verifAssert("C17.partial_drain", len(order) == 4)
			}
			push(m)
		}
	}
	if !(mode == 3 && !group) {
		close(gate)
	}
	if mode == 4 {
		close(permit)
	}
	verifQuiesce()
	verifAssert("C17.all_delivered", len(order) == k)
	for i, id := range order {
		switch {
		case group:
			verifAssert("C17.group.order", id == i+1)
		case mode == 0:
			verifAssert("C17.ready.order", id == i+1)
		case client == 0 || client == 3 || client == 4 || client == 5 || client == 6:
			verifAssert("C17.tunnel.stalled.order", id == i+1)
		default:
			verifAssert("C17.router.stalled.order", id == i+1)
		}
	}
	for i, d := range held {
		// payloads handed out earlier are not overwritten by later events
		verifAssert("C17.group.payload_kept", len(d) == 1 && d[0] == byte(order[i]-1))
	}
	verifCover("C17.end")
}
