//go:build verif

package knx

import (
	"time"

	"github.com/vapourismo/knx-go/knx/cemi"
	"github.com/vapourismo/knx-go/knx/knxnet"
)

func init() {
	verifHarnesses["HarnessC10"] = HarnessC10
}

// HarnessC10: a = {scenario, closers (1 or 2), reader present 0/1}. Close is injected into
//
//	0 an idle tunnel, 1 a pending Send (gateway silent), 2 a pending heartbeat exchange,
//	3 a pending reconnect (heartbeat failed, gateway silent), 4 parked inbound deliveries
//	(nobody reading), 5 a tunnel whose socket already died, 6 an idle tunnel whose socket refuses
//	exactly the next transmission (the disconnect request meets a transient error while the
//	socket's inbound side stays open): Close still ends the tunnel.
func HarnessC10(a []int) {
	scenario, closers, withReader := a[0], a[1], a[2] == 1
	sock := newVSock()
	conn := vTunnel(sock, false)
	conn.config.HeartbeatInterval = 3300 * time.Millisecond
	conn.config.ResponseTimeout = 5100 * time.Millisecond
	conn.channel, conn.seqNumber = nondetU8(), nondetU8()
	conn.control = knxnet.HostInfo{Protocol: knxnet.UDP4}
	frames := make(chan knxnet.ServicePackable, 64)
	sock.onSend = func(p knxnet.ServicePackable) { frames <- p }
	dead := false
	go func() { // gateway
		verifDaemon()
		for f := range frames {
			if dead {
				continue
			}
			switch r := f.(type) {
			case *knxnet.ConnStateReq:
				if scenario != 2 && scenario != 3 {
					sock.in <- &knxnet.ConnStateRes{Channel: r.Channel, Status: 0}
				}
			case *knxnet.TunnelReq:
				if scenario != 1 {
					sock.in <- &knxnet.TunnelRes{Channel: r.Channel, SeqNumber: r.SeqNumber, Status: 0}
				}
			}
		}
	}()
	readerDone := false
	if withReader {
		go func() {
			for range conn.Inbound() {
			}
			readerDone = true
		}()
	}
	conn.wait.Add(1)
	go conn.serve()
	sendReturned, sendErr := false, error(nil)
	switch scenario {
	case 1:
		go func() {
			sendErr = conn.Send(c04Msgs[0])
			sendReturned = true
		}()
		verifSleep(int64(time.Second))
	case 2:
		verifSleep(int64(4 * time.Second)) // heartbeat request out, unanswered
	case 3:
		verifSleep(int64(9 * time.Second)) // heartbeat timed out at 8.4 s, connect request out, unanswered
	case 4:
		sock.in <- &knxnet.TunnelReq{Channel: conn.channel, SeqNumber: 0, Payload: c04Msgs[1]}
		sock.in <- &knxnet.TunnelReq{Channel: conn.channel, SeqNumber: 1, Payload: c04Msgs[2]}
		verifQuiesce()
	case 5:
		dead = true
		close(sock.in)
		verifQuiesce()
	case 6:
		sock.failOnce = true
	}
	tClose := verifNow()
	returned := 0
	var latest int64
	for i := 0; i < closers; i++ {
		go func() {
			conn.Close()
			// whoever returns from Close finds the tunnel ended
			select {
			case _, open := <-conn.Inbound():
				verifAssert("C10.closed_when_close_returns", !open)
			default:
				verifFail("C10.closed_when_close_returns")
			}
			returned++
			latest = verifNow()
		}()
	}
	verifSleep(int64(30 * time.Second))
	alive := verifQuiesce()
	verifAssert("C10.close_returns", returned == closers)
	verifAssert("C10.close_bounded", latest-tClose <= int64(conn.config.ResponseTimeout+conn.config.ResendInterval))
	disc := 0
	for _, f := range sock.log {
		if _, ok := f.(*knxnet.DiscReq); ok {
			disc++
		}
	}
	if scenario == 6 {
		// the one attempt was refused by the socket; it is not repeated and nothing else fails
		verifAssert("C10.one_disconnect_request", disc == 0 && sock.refused == 1)
	} else {
		verifAssert("C10.one_disconnect_request", disc == 1)
	}
	verifAssert("C10.socket_released_once", sock.closed == 1)
	verifAssert("C10.no_goroutine_left", alive == 0)
	if withReader {
		verifAssert("C10.inbound_range_ends", readerDone)
	}
	_, open := <-conn.Inbound()
	verifAssert("C10.inbound_closed", !open)
	if scenario == 1 {
		verifAssert("C10.pending_send_fails", sendReturned && sendErr != nil)
	}
	t0 := verifNow()
	err := conn.Send(c04Msgs[3])
	verifAssert("C10.later_send_fails_promptly", err != nil && verifNow()-t0 <= int64(conn.config.ResponseTimeout))
	conn.Close() // idempotent
	verifAssert("C10.idempotent", sock.closed == 1)
	verifObserve("disc", disc)
	verifCover("C10.end")
}

var _ cemi.Message

func init() {
	verifHarnesses["HarnessC10Relay"] = HarnessC10Relay
}

// HarnessC10Relay: a = {late frame: 0 connection-state response, 1 tunnelling acknowledgement;
// epoch end: 0 disconnect response, 1 socket dies, 2 Close}: a response for the current channel
// arrives while nobody waits for it, and the server goroutine ends within the relay's offer
// window; no panic may escape and no goroutine may stay behind.
func HarnessC10Relay(a []int) {
	sock := newVSock()
	conn := vTunnel(sock, false)
	conn.channel = nondetU8()
	conn.wait.Add(1)
	go conn.serve()
	if a[0] == 0 {
		sock.in <- &knxnet.ConnStateRes{Channel: conn.channel, Status: knxnet.ErrCode(nondetU8())}
	} else {
		sock.in <- &knxnet.TunnelRes{Channel: conn.channel, SeqNumber: nondetU8(), Status: knxnet.ErrCode(nondetU8())}
	}
	switch a[1] {
	case 0:
		sock.in <- &knxnet.DiscRes{Channel: conn.channel}
	case 1:
		close(sock.in)
	default:
		conn.Close()
	}
	verifSleep(int64(20 * time.Second))
	alive := verifQuiesce()
	verifAssert("C10.relay.no_goroutine_left", alive == 0)
	_, open := <-conn.Inbound()
	verifAssert("C10.relay.inbound_closed", !open)
	verifCover("C10.relay.end")
}
