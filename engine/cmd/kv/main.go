package main

import (
	"fmt"

	_ "golang.org/x/tools/go/packages"
	_ "golang.org/x/tools/go/ssa"
	_ "golang.org/x/tools/go/ssa/ssautil"
)

func main() { fmt.Println("kv") }
