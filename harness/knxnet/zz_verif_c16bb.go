//go:build verif

package knxnet

// Sockets, black box: the real constructors DialTunnelUDP / DialTunnelTCP run on stubbed
// net.Resolve*/Dial* (the peer is 192.0.2.1:3671, the connection an empty stub whose Read, Write and
// Close are the network model); they start the receiver goroutines themselves. Only exported
// identifiers of the library are named here, so these instances keep deciding when the receiver
// functions are renamed or restructured.

// c16Addr is a local address as the kernel reports it.
type c16Addr struct {
	network string
	text    string
}

func (a c16Addr) Network() string { return a.network }
func (a c16Addr) String() string  { return a.text }

// HarnessC16HostInfoParse: a = {case}: the real HostInfoFromAddress on the textual form of a local
// endpoint: every port of the 16-bit range is representable (the ephemeral range lies above 32767),
// the protocol code follows the network, IPv6 and malformed addresses are errors.
func HarnessC16HostInfoParse(a []int) {
	verifRealDial()
	cases := []struct {
		network, text string
		ok            bool
		want          HostInfo
	}{
		{"udp", "192.0.2.7:3671", true, HostInfo{Protocol: UDP4, Address: Address{192, 0, 2, 7}, Port: 3671}},
		{"udp", "192.0.2.7:1", true, HostInfo{Protocol: UDP4, Address: Address{192, 0, 2, 7}, Port: 1}},
		{"udp", "10.255.0.254:32767", true, HostInfo{Protocol: UDP4, Address: Address{10, 255, 0, 254}, Port: 32767}},
		{"udp", "10.255.0.254:32768", true, HostInfo{Protocol: UDP4, Address: Address{10, 255, 0, 254}, Port: 32768}},
		{"tcp", "127.0.0.1:49152", true, HostInfo{Protocol: TCP4, Address: Address{127, 0, 0, 1}, Port: 49152}},
		{"tcp", "127.0.0.1:65535", true, HostInfo{Protocol: TCP4, Address: Address{127, 0, 0, 1}, Port: 65535}},
		{"udp", "0.0.0.0:40000", true, HostInfo{Protocol: UDP4, Address: Address{0, 0, 0, 0}, Port: 40000}},
		{"udp", "[::1]:3671", false, HostInfo{}},
		{"udp", "192.0.2.7", false, HostInfo{}},
		{"unix", "192.0.2.7:3671", false, HostInfo{}},
		{"udp", "192.0.2.7:0", false, HostInfo{}},
	}
	if a[0] >= len(cases) {
		// every port: n = a[0]-len(cases)+1 symbolic decimal digits (leading zeros included)
		n := a[0] - len(cases) + 1
		text := []byte("192.0.2.7:")
		want := 0
		for i := 0; i < n; i++ {
			d := nondetU8()
			verifAssume(d <= 9)
			text = append(text, '0'+d)
			want = want*10 + int(d)
		}
		verifAssume(want <= 65535) // a local endpoint never has a larger port; texts beyond are outside the claim
		hi, err := HostInfoFromAddress(c16Addr{"udp", string(text)})
		if want >= 1 {
			verifCover("C16.hostinfo.parse.anyport")
			verifAssert("C16.hostinfo.parse.accepted", err == nil)
			verifAssert("C16.hostinfo.parse.value", hi == HostInfo{Protocol: UDP4, Address: Address{192, 0, 2, 7}, Port: Port(want)})
		} else {
			verifAssert("C16.hostinfo.parse.error", err != nil)
		}
		return
	}
	c := cases[a[0]]
	hi, err := HostInfoFromAddress(c16Addr{c.network, c.text})
	if c.ok {
		verifCover("C16.hostinfo.parse.ok")
		verifAssert("C16.hostinfo.parse.accepted", err == nil)
		verifAssert("C16.hostinfo.parse.value", hi == c.want)
	} else {
		verifCover("C16.hostinfo.parse.rejected")
		verifAssert("C16.hostinfo.parse.error", err != nil)
	}
}

func init() {
	verifHarnesses["HarnessC16HostInfoParse"] = HarnessC16HostInfoParse
	verifHarnesses["HarnessC16DialUDP"] = HarnessC16DialUDP
	verifHarnesses["HarnessC16DialTCP"] = HarnessC16DialTCP
}

// c16Frame builds a well-formed frame with symbolic fields; kind selects the service type.
func c16Frame(kind int) (ServicePackable, []byte) {
	var v ServicePackable
	switch kind % 5 {
	case 4:
		v = &TunnelReq{Channel: nondetU8(), SeqNumber: nondetU8(), Payload: c02Cemi(9, 0, 3)} // L_Busmon.ind
	case 0:
		v = &TunnelRes{Channel: nondetU8(), SeqNumber: nondetU8(), Status: ErrCode(nondetU8())}
	case 1:
		v = &ConnStateRes{Channel: nondetU8(), Status: ErrCode(nondetU8())}
	case 2:
		v = &DiscReq{Channel: nondetU8(), Status: nondetU8(), Control: c02HostInfo()}
	default:
		v = &TunnelReq{Channel: nondetU8(), SeqNumber: nondetU8(), Payload: c02Cemi(2, 0, 2)}
	}
	return v, AllocAndPack(v)
}

func c16Same(want ServicePackable, got Service) bool {
	switch x := want.(type) {
	case *TunnelRes:
		y, ok := got.(*TunnelRes)
		return ok && *x == *y
	case *ConnStateRes:
		y, ok := got.(*ConnStateRes)
		return ok && *x == *y
	case *DiscReq:
		y, ok := got.(*DiscReq)
		return ok && *x == *y
	case *TunnelReq:
		y, ok := got.(*TunnelReq)
		return ok && x.Channel == y.Channel && x.SeqNumber == y.SeqNumber && c02CemiEqual(x.Payload, y.Payload)
	}
	return false
}

// HarnessC16DialUDP: a = {datagrams K, first kind, first datagram: 0 none | 1 empty | 2 from a foreign
// sender (host/port symbolic) | 3 arbitrary bytes (8)}: every well-formed datagram from the peer
// surfaces once and in order, others are skipped; Send writes one datagram of exactly Size bytes;
// after Close the Inbound channel is closed.
func HarnessC16DialUDP(a []int) {
	K, kind0, first := a[0], a[1], a[2]
	verifRealDial()
	extra := false
	switch first {
	case 1:
		verifDatagramFrom([]byte{}, 1, 3671)
	case 2:
		_, b := c16Frame(4)
		host, port := nondetU8(), int(nondetU16())
		verifAssume(host != 1 || port != 3671)
		verifDatagramFrom(b, host, port)
	case 3:
		junk := nondetBytes(8)
		var s Service
		if _, err := Unpack(junk, &s); err == nil {
			extra = true
		}
		verifDatagramFrom(junk, 1, 3671)
	}
	var want []ServicePackable
	for i := 0; i < K; i++ {
		v, b := c16Frame(kind0 + i)
		want = append(want, v)
		verifDatagramFrom(b, 1, 3671)
	}
	sock, err := DialTunnelUDP("192.0.2.1:3671")
	verifAssert("C16.dial.udp.ok", err == nil && sock != nil)
	if extra {
		_, open := <-sock.Inbound()
		verifAssert("C16.dial.udp.frame_arrives", open)
	}
	var gots []Service
	for i := 0; i < K; i++ {
		got, open := <-sock.Inbound()
		verifAssert("C16.dial.udp.frame_arrives", open)
		gots = append(gots, got)
	}
	for i := 0; i < K; i++ {
		verifAssert("C16.dial.udp.frame_equal_in_order", c16Same(want[i], gots[i]))
	}
	out, ob := c16Frame(kind0 + 1)
	verifAssert("C16.dial.udp.send_ok", sock.Send(out) == nil && verifNetWrites() == 1)
	w := verifNetWrite(0)
	verifAssert("C16.dial.udp.one_complete_frame", len(w) == len(ob) && len(w) == int(Size(out)))
	for i := range ob {
		verifAssert("C16.dial.udp.frame_bytes", w[i] == ob[i])
	}
	verifAssert("C16.dial.udp.close", sock.Close() == nil && verifNetClosed() == 1)
	_, open := <-sock.Inbound()
	verifAssert("C16.dial.udp.closed_after_close", !open)
	verifCover("C16.dial.udp.end")
}

// HarnessC16DialTCP: a = {frames F, first kind, cut budget, dribble}: as HarnessC16TCP, through the
// real DialTunnelTCP; then one Send (one contiguous write of the whole frame) and Close.
func HarnessC16DialTCP(a []int) {
	F, kind0, cuts, dribble := a[0], a[1], a[2], a[3]
	verifRealDial()
	var want []ServicePackable
	var stream []byte
	for i := 0; i < F; i++ {
		v, b := c16Frame(kind0 + i)
		want = append(want, v)
		stream = append(stream, b...)
	}
	verifStream(stream, cuts, dribble)
	sock, err := DialTunnelTCP("192.0.2.1:3671")
	verifAssert("C16.dial.tcp.ok", err == nil && sock != nil)
	for i := 0; i < F; i++ {
		got, open := <-sock.Inbound()
		verifAssert("C16.dial.tcp.frame_arrives", open)
		verifAssert("C16.dial.tcp.frame_equal_in_order", c16Same(want[i], got))
	}
	_, open := <-sock.Inbound()
	verifAssert("C16.dial.tcp.closed_after_eof", !open)
	out, ob := c16Frame(kind0)
	verifAssert("C16.dial.tcp.send_ok", sock.Send(out) == nil && verifNetWrites() == 1)
	w := verifNetWrite(0)
	verifAssert("C16.dial.tcp.one_contiguous_frame", len(w) == len(ob))
	for i := range ob {
		verifAssert("C16.dial.tcp.frame_bytes", w[i] == ob[i])
	}
	verifAssert("C16.dial.tcp.close", sock.Close() == nil && verifNetClosed() == 1)
	verifCover("C16.dial.tcp.end")
}
