#!/bin/bash
# seed_eval.sh <dir of a seeded change> [check ids...]: confirm the change (suite passes, demo fails
# with it and passes without it) in a scratch worktree, then run the given checks against /repo with
# the change applied (undone straight afterwards). Results go to <dir>/eval.txt.
set -u
R=${EVAL_REPO:-/repo}  # EVAL_REPO: a scratch worktree of /repo to evaluate in (then KV_REPO points the checks at it)
export KV_REPO=$R
export GOFLAGS=-mod=mod GOPROXY=off GOSUMDB=off GOTOOLCHAIN=local
d="$1"; shift
name=$(basename "$d")
prop=$(python3 -c "import json;print(json.load(open('$d/meta.json'))['property'])")
demodir=$(python3 -c "import json;print(json.load(open('$d/meta.json')).get('demo_dir','knx/'))")
wt=/tmp/seedwt_$name
out="$d/eval.txt"; : > "$out"
git -C /repo worktree add -q --detach "$wt" HEAD || exit 3
cp "$d/demo_test.go" "$wt/$demodir/zz_demo_test.go"
( cd "$wt" && timeout 300 go test -vet=off -count=1 ./$demodir/ > /tmp/seed_$name.base 2>&1 ); base=$?
( cd "$wt" && git apply "$d/patch.diff" ) || { echo "patch does not apply" >> "$out"; }
( cd "$wt" && go build ./... && mv "$demodir/zz_demo_test.go" /tmp/zz_demo_$name.go && timeout 600 go test -vet=off -count=1 ./... > /tmp/seed_$name.suite 2>&1 ); suite=$?
cp /tmp/zz_demo_$name.go "$wt/$demodir/zz_demo_test.go"
( cd "$wt" && timeout 300 go test -vet=off -count=1 ./$demodir/ > /tmp/seed_$name.mut 2>&1 ); mut=$?
echo "confirm: demo_without_patch_exit=$base suite_with_patch_exit=$suite demo_with_patch_exit=$mut" >> "$out"
git -C /repo worktree remove --force "$wt"
rm -f /tmp/zz_demo_$name.go
ids="$*"; [ -z "$ids" ] && ids="$prop"
git -C $R apply "$d/patch.diff" || { echo "apply to /repo failed" >> "$out"; exit 4; }
for id in $ids; do
  KV_OUT=/tmp/kvout_$name timeout 1500 ./check $id quick > /tmp/seed_$name.$id.log 2>&1; rc=$?
  echo "check $id quick exit=$rc: $(grep -c '^VIOLATION' /tmp/seed_$name.$id.log) violation line(s); $(grep -m2 -A1 '^VIOLATION' /tmp/seed_$name.$id.log | grep -v '^VIOLATION' | head -2 | tr '\n' ' ' | cut -c1-300)" >> "$out"
  grep -m3 "INCONCLUSIVE" /tmp/seed_$name.$id.log | cut -c1-300 >> "$out"
done
git -C $R checkout -- .; git -C $R clean -fdq
rm -rf /tmp/kvout_$name
cat "$out"
