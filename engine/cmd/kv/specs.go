package main

var specs = map[string]*Spec{}

func reg(s *Spec) { specs[s.ID] = s }

func init() {
	reg(&Spec{
		ID: "C11",
		Quick: func() []Inst {
			out := []Inst{{Pkg: "cemi", Fn: "HarnessC11Helpers", Note: "helpers over full 8-bit domains"}}
			for kind := int64(0); kind < 3; kind++ {
				for _, il := range []int64{0, 1, 255} {
					for _, dl := range []int64{1, 2, 15, 16, 254} {
						out = append(out, Inst{Pkg: "cemi", Fn: "HarnessC11Pack", Args: []int64{kind, il, dl, 0}},
							Inst{Pkg: "cemi", Fn: "HarnessC11Unpack", Args: []int64{kind, il, dl, 0}})
					}
					out = append(out, Inst{Pkg: "cemi", Fn: "HarnessC11Pack", Args: []int64{kind, il, 0, 1}},
						Inst{Pkg: "cemi", Fn: "HarnessC11Unpack", Args: []int64{kind, il, 0, 1}})
				}
			}
			return out
		},
		Thorough: func() []Inst {
			out := []Inst{{Pkg: "cemi", Fn: "HarnessC11Helpers"}}
			for kind := int64(0); kind < 3; kind++ {
				for dl := int64(1); dl <= 254; dl++ {
					il := []int64{0, 1, 7, 255}[dl%4]
					out = append(out, Inst{Pkg: "cemi", Fn: "HarnessC11Pack", Args: []int64{kind, il, dl, 0}},
						Inst{Pkg: "cemi", Fn: "HarnessC11Unpack", Args: []int64{kind, il, dl, 0}})
				}
				for il := int64(0); il <= 255; il++ {
					dl := []int64{1, 2, 16}[il%3]
					out = append(out, Inst{Pkg: "cemi", Fn: "HarnessC11Pack", Args: []int64{kind, il, dl, 0}},
						Inst{Pkg: "cemi", Fn: "HarnessC11Unpack", Args: []int64{kind, il, dl, 0}},
						Inst{Pkg: "cemi", Fn: "HarnessC11Pack", Args: []int64{kind, il, 0, 1}},
						Inst{Pkg: "cemi", Fn: "HarnessC11Unpack", Args: []int64{kind, il, 0, 1}})
				}
			}
			return out
		},
		Covers:  []string{"C11.helpers.end", "C11.pack.end", "C11.unpack.end"},
		Bounds:  "quick: L_Data req/con/ind x info length {0,1,255} x payload length {1,2,15,16,254} + control units; thorough: every payload length 1..254 and every info length 0..255; all field values (both control octets, addresses, APCI, TPCI flags/sequence, payload and info bytes) symbolic; helpers over their complete 8-bit domains",
		Outside: "payload/info lengths not enumerated in the quick tier; unnumbered units with a non-zero sequence field; oversize parts (C15)",
		Assume:  []string{"reference layout written from the cEMI specification text of the property (DESIGN B.2)"},
	})

	c18 := func(maxBytes int64, thorough bool) []Inst {
		out := []Inst{{Pkg: "cemi", Fn: "HarnessC18Ctors"}}
		for k := int64(0); k < 2; k++ {
			out = append(out, Inst{Pkg: "cemi", Fn: "HarnessC18RoundTrip", Args: []int64{k}, Note: "all 65535 non-zero addresses symbolic"})
			for l := int64(0); l <= maxBytes; l++ {
				out = append(out, Inst{Pkg: "cemi", Fn: "HarnessC18ParseBytes", Args: []int64{k, l}, Note: "every byte string of this length"})
			}
			shapes := [][]int64{{1, 1, 0, 0, 0, 0}, {1, 5, 0, 0, 0, 0}, {1, 5, 0, 0, 0, 1}, {2, 1, 1, 0, 0, 0}, {2, 2, 4, 0, 0, 0}, {2, 3, 3, 0, 0, 2},
				{3, 2, 1, 3, 0, 0}, {3, 2, 2, 3, 0, 0}, {3, 1, 1, 4, 0, 4}, {3, 2, 2, 3, 0, 1}, {4, 1, 1, 1, 1, 0}}
			if thorough {
				shapes = nil
				for n := int64(1); n <= 4; n++ {
					var rec func(pre []int64)
					rec = func(pre []int64) {
						if int64(len(pre)) == n {
							d := append([]int64{n}, pre...)
							for int64(len(d)) < 5 {
								d = append(d, 0)
							}
							shapes = append(shapes, append(append([]int64{}, d...), 0))
							shapes = append(shapes, append(append([]int64{}, d...), 1<<uint(len(pre)-1)))
							return
						}
						for _, dg := range []int64{1, 2, 3, 4, 5} {
							if n >= 3 && (dg == 5) {
								continue
							}
							rec(append(append([]int64{}, pre...), dg))
						}
					}
					if n == 4 {
						shapes = append(shapes, []int64{4, 1, 1, 1, 1, 0}, []int64{4, 2, 1, 3, 1, 0})
						continue
					}
					rec(nil)
				}
			}
			for _, sh := range shapes {
				out = append(out, Inst{Pkg: "cemi", Fn: "HarnessC18ParseShape", Args: append([]int64{k}, sh...), Note: "grammar-shaped text, symbolic digits and separators"})
			}
		}
		return out
	}
	reg(&Spec{
		ID:       "C18",
		Quick:    func() []Inst { return c18(5, false) },
		Thorough: func() []Inst { return c18(8, true) },
		Covers:   []string{"C18.rt.end", "C18.ctor.end", "C18.parse.accept", "C18.parse.reject"},
		Bounds:   "round trip: all 65535 non-zero addresses of both kinds (one symbolic 16-bit variable); constructors: all argument values; acceptance: every byte string of length 0..5 (quick) / 0..8 (thorough) fully symbolic against an independent recogniser of the documented language, plus grammar-shaped texts of 1..4 components with 1..5 symbolic digits each, optional signs and symbolic separator bytes",
		Outside:  "fully symbolic strings longer than 8 bytes; components longer than 5 digits; strings with non-ASCII digits are covered only as arbitrary bytes",
		Assume:   []string{"strings.Split and strconv.Atoi are executed from their real SSA; internal/bytealg.IndexByteString/CountString and strconv.syntaxError/rangeError are engine built-ins", "fmt.Sprintf(\"%d...\") is a built-in decimal formatter validated by native replay"},
	})
}
