package exec

import (
	"fmt"
	"go/types"

	"golang.org/x/tools/go/ssa"

	"kv/term"
)

// Value is one of: *term.T, Ptr, *Struct, *Array, Slice, *Str, Iface, *Map,
// *Chan, *Closure, Tuple, *Iter.
type Value interface{}

type Object struct {
	ID    int
	V     Value
	T     types.Type
	Valid int // >=0: only elements [0,Valid) of the backing array are input; reads beyond are region breaches
	Name  string
	Stale bool // elements are "stale"/garbage variables (C15, C01)
	Lazy  *Str // UTF-8 bytes of a rune-represented string, not materialised (length unknown)
	// happens-before bookkeeping (conc.go)
	lastW     *access
	lastR     []*access
	Shared    bool
	LibGlobal bool // package-level variable of the library (race-tracked)
}

type Ptr struct {
	Obj  *Object
	Path []int
}

func (p Ptr) IsNil() bool { return p.Obj == nil }

type Struct struct{ F []Value }
type Array struct{ E []Value }

type Slice struct {
	Arr           *Object // V is *Array
	Off, Len, Cap int
}

func (s Slice) IsNil() bool { return s.Arr == nil }

type Str struct {
	B      []*term.T // bytes (BV8) when !Runes
	R      []*term.T // runes (BV32) when Runes
	Runes  bool
	Opaque bool
	Tag    string
}

type Iface struct {
	T types.Type // nil for nil interface
	V Value
}

type Map struct {
	Keys []Value // concrete keys (strings as Go string via keyOf)
	K    map[string]int
	Vals []Value
	T    *types.Map
}

type Closure struct {
	Fn      *ssa.Function
	Env     []Value
	Builtin string // name of builtin / intrinsic if Fn == nil
	Bound   Value  // bound receiver for method values of builtins (e.g. mutex.Unlock)
}

type Tuple []Value

type Iter struct {
	M    *Map
	S    *Str
	Pos  int
	Keys []int
}

func width(t types.Type) int {
	b, ok := t.Underlying().(*types.Basic)
	if !ok {
		panic(fmt.Sprintf("width of non-basic %v", t))
	}
	switch b.Kind() {
	case types.Int8, types.Uint8:
		return 8
	case types.Int16, types.Uint16:
		return 16
	case types.Int32, types.Uint32, types.Float32:
		return 32
	case types.Int, types.Uint, types.Int64, types.Uint64, types.Uintptr, types.Float64, types.UntypedInt, types.UntypedFloat, types.UntypedRune:
		return 64
	case types.Bool, types.UntypedBool:
		return 1
	}
	panic(fmt.Sprintf("width of %v", t))
}

func isSigned(t types.Type) bool {
	b, ok := t.Underlying().(*types.Basic)
	return ok && b.Info()&types.IsInteger != 0 && b.Info()&types.IsUnsigned == 0
}
func isInt(t types.Type) bool {
	b, ok := t.Underlying().(*types.Basic)
	return ok && b.Info()&types.IsInteger != 0
}
func isFloat(t types.Type) bool {
	b, ok := t.Underlying().(*types.Basic)
	return ok && b.Info()&types.IsFloat != 0
}
func isBool(t types.Type) bool {
	b, ok := t.Underlying().(*types.Basic)
	return ok && b.Info()&types.IsBoolean != 0
}
func isString(t types.Type) bool {
	b, ok := t.Underlying().(*types.Basic)
	return ok && b.Info()&types.IsString != 0
}

func (e *Exec) zero(t types.Type) Value {
	if n, ok := t.(*types.Named); ok && n.Obj().Pkg() != nil && n.Obj().Pkg().Path() == "reflect" && n.Obj().Name() == "Value" {
		return &RValue{} // the invalid reflect.Value (model of package reflect, call.go)
	}
	switch u := t.Underlying().(type) {
	case *types.Basic:
		switch {
		case u.Info()&types.IsBoolean != 0:
			return e.C.False
		case u.Info()&types.IsInteger != 0:
			return e.C.BVConst(width(u), 0)
		case u.Info()&types.IsFloat != 0:
			return e.C.FPConst(width(u), 0)
		case u.Info()&types.IsString != 0:
			return &Str{}
		case u.Kind() == types.UnsafePointer:
			return Ptr{}
		case u.Kind() == types.UntypedNil:
			return Ptr{}
		}
	case *types.Pointer:
		return Ptr{}
	case *types.Slice:
		return Slice{}
	case *types.Map:
		return (*Map)(nil)
	case *types.Chan:
		return (*Chan)(nil)
	case *types.Signature:
		return (*Closure)(nil)
	case *types.Interface:
		return Iface{}
	case *types.Struct:
		s := &Struct{F: make([]Value, u.NumFields())}
		for i := range s.F {
			s.F[i] = e.zero(u.Field(i).Type())
		}
		return s
	case *types.Array:
		a := &Array{E: make([]Value, u.Len())}
		if u.Len() > 0 {
			z := e.zero(u.Elem())
			for i := range a.E {
				if i == 0 {
					a.E[i] = z
				} else {
					a.E[i] = copyVal(z)
				}
			}
		}
		return a
	case *types.Tuple:
		tp := make(Tuple, u.Len())
		for i := range tp {
			tp[i] = e.zero(u.At(i).Type())
		}
		return tp
	}
	panic(fmt.Sprintf("zero: unsupported type %v", t))
}

// copyVal copies aggregates (value semantics); everything else is immutable or a reference.
func copyVal(v Value) Value {
	switch x := v.(type) {
	case *Struct:
		n := &Struct{F: make([]Value, len(x.F))}
		for i, f := range x.F {
			n.F[i] = copyVal(f)
		}
		return n
	case *Array:
		n := &Array{E: make([]Value, len(x.E))}
		for i, f := range x.E {
			n.E[i] = copyVal(f)
		}
		return n
	}
	return v
}

func (e *Exec) newObj(t types.Type, v Value) *Object {
	e.nextObj++
	e.memVer++
	return &Object{ID: e.nextObj, V: v, T: t, Valid: -1}
}

// container navigation
func (e *Exec) load(p Ptr) Value {
	if p.Obj == nil {
		e.goPanic("nil pointer dereference")
	}
	v := p.Obj.V
	for _, i := range p.Path {
		switch c := v.(type) {
		case *Struct:
			v = c.F[i]
		case *Array:
			if i < 0 || i >= len(c.E) {
				e.goPanic("index out of range")
			}
			v = c.E[i]
		default:
			panic(fmt.Sprintf("load: bad path into %T", v))
		}
	}
	if p.Obj.Valid >= 0 && len(p.Path) == 1 {
		e.checkRegion(p.Obj, p.Path[0], "read")
	}
	e.noteAccess(p, false)
	return copyVal(v)
}

func (e *Exec) store(p Ptr, nv Value) {
	if p.Obj == nil {
		e.goPanic("nil pointer dereference")
	}
	e.noteAccess(p, true)
	if len(p.Path) == 0 {
		p.Obj.V = e.assign(p.Obj.V, nv)
		return
	}
	v := p.Obj.V
	for k, i := range p.Path {
		last := k == len(p.Path)-1
		switch c := v.(type) {
		case *Struct:
			if last {
				c.F[i] = e.assign(c.F[i], nv)
				return
			}
			v = c.F[i]
		case *Array:
			if i < 0 || i >= len(c.E) {
				e.goPanic("index out of range")
			}
			if last {
				c.E[i] = e.assign(c.E[i], nv)
				return
			}
			v = c.E[i]
		default:
			panic(fmt.Sprintf("store: bad path into %T", v))
		}
	}
}

// assign writes src over dst; aggregates are assigned element-wise in place
// so that containers keep their identity (slices and views alias them).
func (e *Exec) assign(dst, src Value) Value {
	switch d := dst.(type) {
	case *Struct:
		s := src.(*Struct)
		for i := range d.F {
			d.F[i] = e.assign(d.F[i], s.F[i])
		}
		return d
	case *Array:
		s := src.(*Array)
		for i := range d.E {
			d.E[i] = e.assign(d.E[i], s.E[i])
		}
		return d
	}
	if dt, ok := dst.(*term.T); ok {
		if st, ok := src.(*term.T); ok && st == dt {
			return src
		}
	}
	e.memVer++
	return copyVal(src)
}

func (p Ptr) child(i int) Ptr {
	np := make([]int, len(p.Path)+1)
	copy(np, p.Path)
	np[len(p.Path)] = i
	return Ptr{Obj: p.Obj, Path: np}
}

func ptrEq(a, b Ptr) bool {
	if a.Obj != b.Obj || len(a.Path) != len(b.Path) {
		return false
	}
	for i := range a.Path {
		if a.Path[i] != b.Path[i] {
			return false
		}
	}
	return true
}

func (e *Exec) sliceArr(s Slice) *Array {
	if s.Arr.Lazy != nil {
		e.unsupported("byte access to the UTF-8 form of a symbolic rune string (only string<->[]byte conversion and the Latin-1 codec are modelled)")
	}
	return s.Arr.V.(*Array)
}

// newArrayObj allocates a backing array of n zero elements of type elem.
func (e *Exec) newArrayObj(elem types.Type, n int) *Object {
	a := &Array{E: make([]Value, n)}
	if n > 0 {
		z := e.zero(elem)
		_, agg := z.(*Struct)
		_, agg2 := z.(*Array)
		for i := range a.E {
			if agg || agg2 {
				a.E[i] = copyVal(z)
			} else {
				a.E[i] = z
			}
		}
	}
	return e.newObj(types.NewArray(elem, int64(n)), a)
}

func (e *Exec) strConst(s string) *Str {
	b := make([]*term.T, len(s))
	for i := 0; i < len(s); i++ {
		b[i] = e.C.BVConst(8, uint64(s[i]))
	}
	return &Str{B: b}
}

// concreteStr returns the Go string if every byte is constant.
func (e *Exec) concreteStr(s *Str) (string, bool) {
	if s.Opaque {
		return "", false
	}
	if s.Runes {
		rs := make([]rune, len(s.R))
		for i, r := range s.R {
			if !r.IsConst() {
				return "", false
			}
			rs[i] = rune(r.Val)
		}
		return string(rs), true
	}
	bs := make([]byte, len(s.B))
	for i, b := range s.B {
		if !b.IsConst() {
			return "", false
		}
		bs[i] = byte(b.Val)
	}
	return string(bs), true
}
