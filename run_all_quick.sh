#!/bin/sh
# convenience: run every claimed quick check, one after the other
cd "$(dirname "$0")"
for id in $(python3 -c "import json;print(' '.join(c['property_id'] for c in json.load(open('MANIFEST.json'))['checks']))"); do
  /usr/bin/time -f "$id %es" ./check $id quick > /tmp/kvq_$id.log 2>&1; echo "$id exit=$? $(tail -1 /tmp/kvq_$id.log)"
done
