//go:build verif

package knx

import (
	"time"

	"github.com/vapourismo/knx-go/knx/cemi"
	"github.com/vapourismo/knx-go/knx/knxnet"
)

// Black-box tunnel environment: the client is built by the real NewTunnel; the engine redirects
// knxnet.DialTunnelUDP/TCP to the harness socket of package knxnet, whose connection hands every
// written frame to the scripted gateway below and whose inbound channel the gateway feeds. The
// harnesses in this file name no unexported identifier of Tunnel: they keep running (and keep
// deciding) when its internals are refactored, and they start every history at the constructor,
// where the step harnesses (zz_verif_c03/c04/c05/c09/c10.go) start from an arbitrary symbolic state.

func init() {
	verifHarnesses["HarnessTunnelBB"] = HarnessTunnelBB
	verifHarnesses["HarnessC16HostInfoBB"] = HarnessC16HostInfoBB
}

// HarnessC16HostInfoBB: a = {use TCP, send local address}: the endpoint advertised in the connect
// request written by the real NewTunnel.
func HarnessC16HostInfoBB(a []int) {
	tcp, sendLocal := a[0] == 1, a[1] == 1
	g := newTunGW(map[bool]string{false: "udp", true: "tcp"}[tcp], func(f knxnet.Service) []knxnet.Service {
		if _, ok := f.(*knxnet.ConnReq); ok {
			return []knxnet.Service{&knxnet.ConnRes{Channel: 7, Status: 0}}
		}
		return nil
	})
	conn, err := NewTunnel("192.0.2.1:3671", knxnet.TunnelLayerData, TunnelConfig{UseTCP: tcp, SendLocalAddress: sendLocal})
	verifAssert("C16.hostinfo.bb.connects", err == nil && conn != nil && len(g.frames) >= 1)
	req, ok := g.frames[0].(*knxnet.ConnReq)
	verifAssert("C16.hostinfo.bb.first_frame_is_connect_request", ok)
	if sendLocal && !tcp {
		verifCover("C16.hostinfo.bb.local")
		verifAssert("C16.hostinfo.bb.advertised", knxnet.VerifHostInfoCalls == 1 && req.Control == knxnet.VerifHostInfo && req.Tunnel == knxnet.VerifHostInfo)
	} else {
		verifCover("C16.hostinfo.bb.nat")
		proto := knxnet.UDP4
		if tcp {
			proto = knxnet.TCP4
		}
		verifAssert("C16.hostinfo.bb.nat_endpoint", knxnet.VerifHostInfoCalls == 0 && req.Control == knxnet.HostInfo{Protocol: proto} && req.Tunnel == req.Control && req.Layer == knxnet.TunnelLayerData)
	}
}

type tunGW struct {
	in     chan knxnet.Service // gateway -> client
	frames []knxnet.Service    // client -> gateway, decoded, in the order written
	stamps []int64
	out    chan knxnet.Service
	stop   chan struct{}
}

// newTunGW installs the gateway: handle is called (on the gateway goroutine) for every frame the
// client writes and returns the frames to answer with.
func newTunGW(network string, handle func(f knxnet.Service) []knxnet.Service) *tunGW {
	knxnet.VerifReset(network)
	g := &tunGW{in: knxnet.VerifInbound, out: make(chan knxnet.Service, 64), stop: make(chan struct{})}
	knxnet.VerifOnWrite(func(b []byte) {
		var srv knxnet.Service
		if _, err := knxnet.Unpack(b, &srv); err != nil {
			verifFail("env.tunnel_wrote_undecodable_frame")
		}
		g.frames = append(g.frames, srv)
		g.stamps = append(g.stamps, verifNow())
		switch srv.(type) {
		case *knxnet.TunnelRes, *knxnet.DiscRes:
			// the client's own acknowledgements call for no reaction: logged only
		default:
			g.out <- srv
		}
	})
	go func() {
		verifDaemon()
		for f := range g.out {
			for _, r := range handle(f) {
				select {
				case g.in <- r:
				case <-g.stop:
					return
				}
			}
		}
	}()
	return g
}

// newBBTunnel connects a client through the real constructor to a gateway that accepts the connect
// request (channel symbolic), answers heartbeats and acknowledges tunnelling requests (UDP only).
func newBBTunnel(tcp bool) (*Tunnel, *tunGW, uint8) {
	c := nondetU8()
	g := newTunGW(map[bool]string{false: "udp", true: "tcp"}[tcp], func(f knxnet.Service) []knxnet.Service {
		switch r := f.(type) {
		case *knxnet.ConnReq:
			return []knxnet.Service{&knxnet.ConnRes{Channel: c, Status: 0}}
		case *knxnet.ConnStateReq:
			return []knxnet.Service{&knxnet.ConnStateRes{Channel: r.Channel, Status: 0}}
		case *knxnet.TunnelReq:
			if !tcp {
				return []knxnet.Service{&knxnet.TunnelRes{Channel: r.Channel, SeqNumber: r.SeqNumber, Status: 0}}
			}
		}
		return nil
	})
	cfg := TunnelConfig{ResendInterval: 2 * time.Second, HeartbeatInterval: 100 * time.Second, ResponseTimeout: 5 * time.Second, UseTCP: tcp}
	conn, err := NewTunnel("192.0.2.1:3671", knxnet.TunnelLayerData, cfg)
	if err != nil {
		verifFail("env.tunnel_constructor")
	}
	return conn, g, c
}

func tunInd(i int) *cemi.LDataInd {
	return &cemi.LDataInd{LData: cemi.LData{Control1: cemi.Control1StdFrame, Control2: cemi.Control2GroupAddr,
		Destination: uint16(100 + i), Data: &cemi.AppData{Command: cemi.GroupValueWrite, Data: []byte{byte(i)}}}}
}

func tunReq(i int) *cemi.LDataReq {
	return &cemi.LDataReq{LData: tunInd(i).LData}
}

// bbAssert checks a clause only in the run that is registered under the clause's property, so that a
// violation is reported under the property it belongs to.
func bbAssert(focus, prop int, name string, cond bool) {
	if focus == prop {
		verifAssert(name, cond)
	}
}

// HarnessTunnelBB: a = {tcp, scenario, property in focus (3, 4, 5, 9, 10)}. Histories from the constructor on (channels symbolic):
//
//	0: connect - Send, Send - inbound 0, 1, 1 repeated - Close, Close
//	1: as 0 with a Send in between that the gateway rejects with an error status
//	2: connect - Send - inbound 0 - heartbeats unanswered - reconnect (new channel may equal the old
//	   one) - Send - inbound 0 of the new epoch
//	3: connect - Send - twelve heartbeat intervals with every heartbeat answered
//	4: connect - a[3] rounds of (Send acknowledged, one inbound request in sequence): with 260 rounds
//	   both counters pass 255 -> 0 on one connection built by the real constructor
//
// Asserted: the sequence numbers the gateway sees on tunnelling requests (C03), delivery and
// acknowledgement of inbound requests incl. the restart at 0 after the reconnect (C04), the error
// returned by a rejected Send (C05), the channel of every frame in each epoch (C09), the Close
// guarantees (C10).
func HarnessTunnelBB(a []int) {
	tcp, scenario, focus := a[0] == 1, a[1], a[2]
	c1, c2 := nondetU8(), nondetU8()
	connects := 0
	silent := false // the gateway ignores heartbeats
	rejectNext := false
	g := newTunGW(map[bool]string{false: "udp", true: "tcp"}[tcp], func(f knxnet.Service) []knxnet.Service {
		switch r := f.(type) {
		case *knxnet.ConnReq:
			connects++
			ch := c1
			if connects > 1 {
				ch = c2
				silent = false
			}
			return []knxnet.Service{&knxnet.ConnRes{Channel: ch, Status: 0}}
		case *knxnet.ConnStateReq:
			if !silent {
				return []knxnet.Service{&knxnet.ConnStateRes{Channel: r.Channel, Status: 0}}
			}
		case *knxnet.TunnelReq:
			if tcp {
				return nil // no acknowledgements at this level on a stream connection
			}
			st := knxnet.ErrCode(0)
			if rejectNext {
				rejectNext = false
				st = knxnet.ErrCode(0x29)
			}
			return []knxnet.Service{&knxnet.TunnelRes{Channel: r.Channel, SeqNumber: r.SeqNumber, Status: st}}
		}
		return nil
	})
	cfg := TunnelConfig{ResendInterval: 2 * time.Second, HeartbeatInterval: 3300 * time.Millisecond, ResponseTimeout: 5100 * time.Millisecond, UseTCP: tcp}
	conn, err := NewTunnel("192.0.2.1:3671", knxnet.TunnelLayerData, cfg)
	verifAssert("BB.connects", err == nil && connects == 1)
	var got []int
	readerDone := false
	go func() {
		for m := range conn.Inbound() {
			got = append(got, rid(m))
		}
		readerDone = true
	}()
	wantSeqs := []int{0, 1}
	wantAcks := 3
	verifAssert("BB.send", conn.Send(tunReq(0)) == nil)
	switch scenario {
	case 4:
		// a long history on one connection: both counters wrap
		rounds := a[3]
		wantSeqs = []int{0}
		for i := 1; i <= rounds; i++ {
			ok := conn.Send(tunReq(i)) == nil
			bbAssert(focus, 3, "BB.C03.long.send_succeeds", ok)
			bbAssert(focus, 5, "BB.C05.long.send_succeeds", ok)
			wantSeqs = append(wantSeqs, i%256)
			g.in <- &knxnet.TunnelReq{Channel: c1, SeqNumber: uint8(i - 1), Payload: tunInd(i - 1)}
		}
		verifQuiesce()
		want := make([]int, rounds)
		for i := range want {
			want[i] = i
		}
		bbAssert(focus, 4, "BB.C04.long.delivered_once_in_order", c14Equal(got, want))
		bbAssert(focus, 5, "BB.C05.long.delivered_once_in_order", c14Equal(got, want))
		k := 0
		for _, f := range g.frames {
			if r, ok := f.(*knxnet.TunnelRes); ok {
				bbAssert(focus, 4, "BB.C04.long.ack_sequence", !tcp && int(r.SeqNumber) == k%256)
				k++
			}
		}
		wantAcks = rounds
		if tcp {
			wantAcks = 0
		}
		verifCover("BB.long")
	case 3:
		// a long healthy connection: twelve heartbeat intervals, every request answered - a
		// connection-state request goes out in each of them (state that only a long history builds
		// up, such as worker limits or counters, shows here)
		const rounds = 12
		hb := int64(cfg.HeartbeatInterval)
		verifSleep(rounds*hb + hb/2)
		verifQuiesce()
		var at []int64
		for i, f := range g.frames {
			if _, ok := f.(*knxnet.ConnStateReq); ok {
				at = append(at, g.stamps[i])
			}
		}
		bbAssert(focus, 9, "BB.C09.heartbeat_every_interval", len(at) >= rounds)
		for i := 1; i < len(at); i++ {
			bbAssert(focus, 9, "BB.C09.heartbeat_gap", at[i]-at[i-1] <= hb)
		}
		bbAssert(focus, 9, "BB.C09.no_reconnect_when_healthy", connects == 1)
		wantSeqs = []int{0}
		wantAcks = 0
	case 0, 1:
		if scenario == 1 {
			rejectNext = true
			bbAssert(focus, 5, "BB.C05.rejected_send_reports_error", conn.Send(tunReq(1)) != nil)
			wantSeqs = []int{0, 1, 2}
		}
		verifAssert("BB.send", conn.Send(tunReq(2)) == nil)
		g.in <- &knxnet.TunnelReq{Channel: c1, SeqNumber: 0, Payload: tunInd(0)}
		g.in <- &knxnet.TunnelReq{Channel: c1, SeqNumber: 1, Payload: tunInd(1)}
		g.in <- &knxnet.TunnelReq{Channel: c1, SeqNumber: 1, Payload: tunInd(1)}
		verifQuiesce()
		if tcp {
			// no sequence check on a stream connection: every request on the channel is delivered
			bbAssert(focus, 4, "BB.C04.tcp_delivers_every_request", c14Equal(got, []int{0, 1, 1}))
		} else {
			bbAssert(focus, 4, "BB.C04.delivered_once_in_order", c14Equal(got, []int{0, 1}))
		}
	case 2:
		g.in <- &knxnet.TunnelReq{Channel: c1, SeqNumber: 0, Payload: tunInd(0)}
		verifQuiesce()
		// the gateway stops answering heartbeats: the next one fails and the client reconnects
		silent = true
		verifSleep(int64(cfg.HeartbeatInterval + cfg.ResponseTimeout + cfg.ResendInterval))
		verifQuiesce()
		bbAssert(focus, 9, "BB.C09.reconnected", connects == 2)
		verifAssert("BB.send", conn.Send(tunReq(3)) == nil)
		g.in <- &knxnet.TunnelReq{Channel: c2, SeqNumber: 0, Payload: tunInd(1)}
		verifQuiesce()
		bbAssert(focus, 4, "BB.C04.receive_counter_restarts", c14Equal(got, []int{0, 1}))
		bbAssert(focus, 9, "BB.C09.receive_counter_restarts", c14Equal(got, []int{0, 1}))
		wantSeqs = []int{0, 0}
		wantAcks = 2
	}
	// what the gateway has seen
	var seqs []int
	acks := 0
	epoch := 0
	for _, f := range g.frames {
		ch := c1
		if epoch == 2 {
			ch = c2
		}
		switch r := f.(type) {
		case *knxnet.ConnReq:
			epoch++
		case *knxnet.TunnelReq:
			bbAssert(focus, 9, "BB.C09.request_channel", r.Channel == ch)
			seqs = append(seqs, int(r.SeqNumber))
		case *knxnet.TunnelRes:
			acks++
			bbAssert(focus, 4, "BB.C04.ack_fields", r.Status == 0 && r.Channel == ch)
		case *knxnet.ConnStateReq:
			bbAssert(focus, 9, "BB.C09.heartbeat_channel", r.Channel == ch)
		}
	}
	if tcp {
		bbAssert(focus, 3, "BB.C03.tcp_one_request_per_send", len(seqs) == len(wantSeqs))
	} else {
		bbAssert(focus, 3, "BB.C03.sequence_numbers", c14Equal(seqs, wantSeqs))
		if scenario == 2 {
			bbAssert(focus, 9, "BB.C09.send_counter_restarts", c14Equal(seqs, wantSeqs))
		}
	}
	if tcp {
		bbAssert(focus, 4, "BB.C04.no_acks_on_tcp", acks == 0)
	} else {
		bbAssert(focus, 4, "BB.C04.acks", acks == wantAcks)
	}
	// Close
	n1 := len(g.frames)
	conn.Close()
	verifQuiesce()
	discs := 0
	for _, f := range g.frames[n1:] {
		if r, ok := f.(*knxnet.DiscReq); ok {
			discs++
			bbAssert(focus, 10, "BB.C10.disconnect_channel", (epoch == 1 && r.Channel == c1) || (epoch == 2 && r.Channel == c2))
		}
	}
	bbAssert(focus, 10, "BB.C10.one_disconnect_request", discs == 1)
	bbAssert(focus, 10, "BB.C10.socket_closed_once", knxnet.VerifConnClosed() == 1)
	close(g.stop)
	verifQuiesce()
	bbAssert(focus, 10, "BB.C10.inbound_closed", readerDone)
	bbAssert(focus, 10, "BB.C10.send_fails_after_close", conn.Send(tunReq(4)) != nil)
	conn.Close()
	bbAssert(focus, 10, "BB.C10.close_idempotent", knxnet.VerifConnClosed() == 1)
	verifCover("BB.end")
}
