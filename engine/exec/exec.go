// Package exec symbolically executes go/ssa functions: one path per run,
// depth-first search over decision vectors with re-execution (stateless).
package exec

import (
	"fmt"
	"go/types"
	"sort"
	"strings"
	"sync"
	"time"

	"golang.org/x/tools/go/ssa"

	"kv/smt"
	"kv/term"
)

type DecKind uint8

const (
	DBranch DecKind = iota // symbolic branch; V = polarity of option 0
	DConc                  // concretisation; V = value; option 0: t==V, option 1: t!=V
	DChoice                // N-way concrete choice (nondetChoice, scheduler)
)

type Decision struct {
	Kind      DecKind
	K, N      int
	V         int64
	AltModel  term.Model
	Uncertain bool
	Label     string
}

// Outcome of one explored path.
type Outcome struct {
	Kind       string // ok | panic | assert | deadlock | unwind | unsupported | infeasible | leak | race
	Detail     string // panic message / assertion id / loop position
	Site       string // source position
	Obs        []string
	Covers     []string
	Tags       map[string]bool
	Model      term.Model
	Nondets    []NondetRec
	Dec        []Decision
	Uncertain  bool
	Trace      []string
	Steps      int
	KnownRaces []string
}

type NondetRec struct {
	Name string
	W    int
	Kind string // u8,u16,u32,u64,bool,len,choice
	Val  uint64
}

type Config struct {
	Unwind       int
	MaxSteps     int
	MaxPaths     int
	Trace        bool
	ContextBound int
	MaxSched     int
	RaceCheck    bool
	NoIfConv     bool
	RandChoice   bool
	KnownRaces   []string // races whose description contains one of these are recorded, not fatal
}

type Exec struct {
	constCache map[*ssa.Const]Value // scalar constants (terms are immutable and live as long as C)
	Prog       *ssa.Program
	C          *term.Ctx
	S          *smt.Solver
	Cfg        Config
	World      *World

	// per-path state
	pc           []*term.T
	dec          []Decision
	pos          int
	model        term.Model
	modelOK      bool
	memo         map[int]uint64
	nextObj      int
	memVer       int
	nondetN      int
	nondets      []nondetVar
	globals      map[*ssa.Global]*Object
	inited       map[*ssa.Package]bool
	obs          []obsRec
	covers       []string
	tags         map[string]*term.T
	uncertain    bool
	steps        int
	trace        []string
	regionBreach string

	// concurrency
	threads     []*Thread
	cur         *Thread
	now         *term.T // virtual clock (BV64 ns); concrete in practice
	nowC        int64
	timers      []*Timer
	nextTimer   int
	schedSteps  int
	raceCheck   bool
	acc         map[accKey]*accState
	grant       *transition
	syncs       map[string]*syncState
	syncFields  map[string]*Object
	views       map[string]*Object
	regions     map[*ssa.BasicBlock]*regionInfo
	garbage     map[string]bool
	foreignInit map[*ssa.Package]bool
	knownRaces  map[string]bool
	netStream   []*term.T
	netCuts     int
	netDribble  bool
	netDgrams   [][]*term.T
	netFrom     [][]*term.T
	netWriteAt  []*term.T
	netWriteEv  [][2]int // goroutine and event number of every write
	charmapObjs map[string]*Object
	evSeq       int
	mutexFIFO   bool
	netFailFrom int
	netAttempts int
	realDial    bool // the socket constructors of knxnet run for real (on stubbed net.Dial*), not redirected
	netWrites   [][]*term.T
	netClosed   int
	tickers     map[*Object]*Timer
	pools       map[*Object][]Value // sync.Pool model: LIFO reuse (the schedule that aliases most)
	wrapped     map[*Object][]Iface // errors wrapped by fmt.Errorf("...%w...")

	// statistics (cumulative)
	Stats Stats
}

type nondetVar struct {
	T    *term.T
	Kind string
	Conc int64 // for len/choice kinds
}

type Stats struct {
	Paths      int
	Decisions  int
	BlockTrans int
	SchedSteps int
	Instrs     int
	IfConv     int
	Funcs      map[string]bool
	Stubs      map[string]bool
}

// World holds what is shared, read-only, between executors.
type World struct {
	Prog     *ssa.Program
	Pkgs     map[string]*ssa.Package // by import path
	InitPkgs map[string]bool         // packages whose init is executed for real
	Sizes    types.Sizes
	RepoDir  string // root of the tree under analysis (stripped from reported positions)
}

type pathEnd struct {
	kind, detail, site string
}

type goPanicSig struct {
	val  Value
	msg  string
	site string
}

func New(w *World, solver *smt.Solver, cfg Config) *Exec {
	e := &Exec{Prog: w.Prog, World: w, C: term.NewCtx(), S: solver, Cfg: cfg}
	e.constCache = map[*ssa.Const]Value{}
	e.Stats.Funcs = map[string]bool{}
	e.Stats.Stubs = map[string]bool{}
	if e.Cfg.Unwind == 0 {
		e.Cfg.Unwind = 300
	}
	if e.Cfg.MaxSteps == 0 {
		e.Cfg.MaxSteps = 2000000
	}
	if e.Cfg.MaxSched == 0 {
		e.Cfg.MaxSched = 5000
	}
	return e
}

// ---- path condition, model, decisions --------------------------------------

func (e *Exec) evalModel(t *term.T) uint64 {
	return e.C.Eval(t, e.model, e.memo)
}

func (e *Exec) setModel(m term.Model) {
	e.model = m
	e.modelOK = m != nil
	e.memo = map[int]uint64{}
}

func (e *Exec) addPC(c *term.T, assert bool) {
	if c.IsTrue() {
		return
	}
	e.pc = append(e.pc, c)
	e.memVer++
	if assert {
		e.S.Assert(c)
	}
	if e.modelOK && e.evalModel(c) != 1 {
		e.modelOK = false
	}
}

// ensureModel makes sure e.model satisfies the path condition; ends the path if infeasible.
func (e *Exec) ensureModel() bool {
	if e.modelOK {
		return true
	}
	r, m := e.S.Check()
	switch r {
	case smt.Sat:
		e.setModel(m)
		return true
	case smt.Unsat:
		panic(pathEnd{kind: "infeasible"})
	}
	e.uncertain = true
	return false
}

func (e *Exec) query(c *term.T) (smt.Result, term.Model) {
	e.S.Define(c)
	e.S.Push()
	e.S.Assert(c)
	r, m := e.S.Check()
	e.S.Pop()
	return r, m
}

// Branch decides a symbolic condition; returns the side taken on this path.
func (e *Exec) Branch(cond *term.T, label string) bool {
	if cond.IsConst() {
		return cond.Val == 1
	}
	if e.pos < len(e.dec) {
		d := &e.dec[e.pos]
		e.pos++
		if d.Kind != DBranch {
			panic(fmt.Sprintf("replay divergence: expected %d got branch (%s vs %s)", d.Kind, d.Label, label))
		}
		side := (d.V == 1) != (d.K == 1)
		c := cond
		if !side {
			c = e.C.BNot(cond)
		}
		if e.pos == len(e.dec) && d.K == 1 {
			// freshly flipped: adopt the alternative's model
			e.pc = append(e.pc, c)
			e.S.Assert(c)
			e.setModel(d.AltModel)
			if d.AltModel == nil {
				e.uncertain = true
			}
			d.AltModel = nil
			return side
		}
		e.addPC(c, d.N > 1)
		return side
	}
	// frontier
	e.Stats.Decisions++
	d := Decision{Kind: DBranch, N: 1, Label: label}
	if e.ensureModel() {
		s0 := e.evalModel(cond) == 1
		other := cond
		if s0 {
			other = e.C.BNot(cond)
		}
		r, m := e.query(other)
		if s0 {
			d.V = 1
		}
		switch r {
		case smt.Sat:
			d.N = 2
			d.AltModel = m
		case smt.Unknown:
			d.N = 2
			d.Uncertain = true
		}
		e.dec = append(e.dec, d)
		e.pos++
		c := cond
		if !s0 {
			c = e.C.BNot(cond)
		}
		e.addPC(c, d.N > 1)
		return s0
	}
	// no model available (solver unknown): explore both sides
	d.V = 1
	d.N = 2
	d.Uncertain = true
	e.dec = append(e.dec, d)
	e.pos++
	e.pc = append(e.pc, cond)
	e.S.Assert(cond)
	return true
}

// Concretize pins a symbolic BV term to a concrete value (forking over the others).
func (e *Exec) Concretize(t *term.T, label string) int64 {
	for {
		if t.IsConst() {
			return int64(t.Val)
		}
		if e.pos < len(e.dec) {
			d := &e.dec[e.pos]
			e.pos++
			if d.Kind != DConc {
				panic(fmt.Sprintf("replay divergence: expected %d got conc (%s vs %s)", d.Kind, d.Label, label))
			}
			eq := e.C.Eq(t, e.C.BVConst(t.Sort.W, uint64(d.V)))
			if d.K == 0 {
				e.addPC(eq, d.N > 1)
				return d.V
			}
			ne := e.C.BNot(eq)
			if e.pos == len(e.dec) {
				e.pc = append(e.pc, ne)
				e.S.Assert(ne)
				e.setModel(d.AltModel)
				if d.AltModel == nil {
					e.uncertain = true
				}
				d.AltModel = nil
			} else {
				e.addPC(ne, true)
			}
			continue
		}
		e.Stats.Decisions++
		if !e.ensureModel() {
			panic(pathEnd{kind: "unsupported", detail: "concretize without model (solver unknown)"})
		}
		v := e.evalModel(t)
		eq := e.C.Eq(t, e.C.BVConst(t.Sort.W, v))
		d := Decision{Kind: DConc, N: 1, V: int64(v), Label: label}
		r, m := e.query(e.C.BNot(eq))
		switch r {
		case smt.Sat:
			d.N = 2
			d.AltModel = m
		case smt.Unknown:
			d.N = 2
			d.Uncertain = true
		}
		e.dec = append(e.dec, d)
		e.pos++
		e.addPC(eq, d.N > 1)
		return int64(v)
	}
}

// Choose makes an n-way concrete choice.
func (e *Exec) Choose(n int, label string) int {
	if n <= 1 {
		return 0
	}
	if e.pos < len(e.dec) {
		d := &e.dec[e.pos]
		e.pos++
		if d.Kind != DChoice {
			panic(fmt.Sprintf("replay divergence: expected %d got choice (%s vs %s)", d.Kind, d.Label, label))
		}
		if d.N != n {
			panic(fmt.Sprintf("replay divergence: choice arity %d vs %d (%s)", d.N, n, label))
		}
		return d.K
	}
	e.Stats.Decisions++
	e.dec = append(e.dec, Decision{Kind: DChoice, K: 0, N: n, Label: label})
	e.pos++
	return 0
}

func (e *Exec) Assume(c *term.T) {
	if c.IsTrue() {
		return
	}
	if c.IsFalse() {
		panic(pathEnd{kind: "infeasible"})
	}
	e.addPC(c, true)
	if !e.modelOK {
		e.ensureModel()
	}
}

// ---- nondeterministic inputs ---------------------------------------------------

func (e *Exec) newNondet(w int, kind string) *term.T {
	name := fmt.Sprintf("n%d", e.nondetN)
	e.nondetN++
	var t *term.T
	if kind == "bool" {
		t = e.C.Var(name, term.Sort{K: term.Bool})
	} else {
		t = e.C.Var(name, term.Sort{K: term.BV, W: w})
	}
	e.S.Define(t)
	e.nondets = append(e.nondets, nondetVar{T: t, Kind: kind})
	e.memVer++
	return t
}

func (e *Exec) recordConcreteNondet(kind string, v int64) {
	e.nondets = append(e.nondets, nondetVar{Kind: kind, Conc: v})
}

// ---- path driver -----------------------------------------------------------------

func (e *Exec) resetPath(prefix []Decision) {
	e.pc = nil
	e.dec = append([]Decision(nil), prefix...)
	e.pos = 0
	e.setModel(term.Model{})
	e.nextObj = 0
	e.memVer = 0
	e.nondetN = 0
	e.nondets = nil
	e.globals = map[*ssa.Global]*Object{}
	e.inited = map[*ssa.Package]bool{}
	e.obs = nil
	e.covers = nil
	e.tags = map[string]*term.T{}
	e.uncertain = false
	e.steps = 0
	e.trace = nil
	e.threads = nil
	e.cur = nil
	e.nowC = 0
	e.timers = nil
	e.nextTimer = 0
	e.schedSteps = 0
	e.regionBreach = ""
	e.raceCheck = e.Cfg.RaceCheck
	e.acc = nil
	e.grant = nil
	e.syncs = nil
	e.syncFields = nil
	e.views = nil
	e.now = nil
	e.tickers = map[*Object]*Timer{}
	e.pools = map[*Object][]Value{}
	e.wrapped = map[*Object][]Iface{}
	e.garbage = map[string]bool{}
	e.foreignInit = nil
	e.knownRaces = nil
	e.netStream, e.netDgrams, e.netWrites, e.netCuts, e.netDribble, e.netClosed = nil, nil, nil, 0, false, 0
	e.netFrom = nil
	e.netWriteAt, e.netFailFrom, e.netAttempts = nil, -1, 0
	e.netWriteEv, e.evSeq, e.mutexFIFO = nil, 0, false
	e.charmapObjs = nil
	e.realDial = false
	for _, d := range prefix {
		if d.Uncertain {
			e.uncertain = true
		}
	}
}

// RunPath executes the harness along the decision prefix and returns the outcome.
func (e *Exec) RunPath(fn *ssa.Function, args []int64, prefix []Decision) (out Outcome) {
	e.resetPath(prefix)
	e.S.Push()
	defer e.S.Pop()
	defer func() {
		if r := recover(); r != nil {
			switch x := r.(type) {
			case pathEnd:
				out = e.finish(x.kind, x.detail, x.site)
			default:
				msg := fmt.Sprint(r)
				if strings.HasPrefix(msg, "replay divergence") {
					out = e.finish("engine-error", msg, "")
				} else {
					out = e.finish("unsupported", msg, e.where())
				}
			}
		}
	}()
	e.Stats.Paths++
	// initialise repo packages
	e.runInits()
	// build arguments
	var argv []Value
	if fn.Signature.Params().Len() == 1 {
		pt := fn.Signature.Params().At(0).Type()
		if sl, ok := pt.Underlying().(*types.Slice); ok {
			obj := e.newArrayObj(sl.Elem(), len(args))
			for i, a := range args {
				obj.V.(*Array).E[i] = e.C.BVConst(width(sl.Elem()), uint64(a))
			}
			argv = []Value{Slice{Arr: obj, Len: len(args), Cap: len(args)}}
		} else {
			panic("harness parameter must be []int")
		}
	}
	main := e.newThread("main", nil)
	e.pushCall(main, &Closure{Fn: fn}, argv, nil, retStop)
	kind, detail, site := e.schedule()
	return e.finish(kind, detail, site)
}

func (e *Exec) finish(kind, detail, site string) Outcome {
	if e.regionBreach != "" && (kind == "ok" || kind == "assert") {
		// handled at the point of breach; nothing here
	}
	var kr []string
	for k := range e.knownRaces {
		kr = append(kr, k)
	}
	sort.Strings(kr)
	o := Outcome{Kind: kind, Detail: detail, Site: site, Covers: e.covers, KnownRaces: kr,
		Dec: e.dec, Uncertain: e.uncertain, Trace: e.trace, Steps: e.steps}
	if kind == "infeasible" {
		return o
	}
	// final model for replay / validation
	if !e.modelOK {
		r, m := e.S.Check()
		if r == smt.Sat {
			e.setModel(m)
		} else if r == smt.Unsat {
			o.Kind = "infeasible"
			return o
		} else {
			o.Uncertain = true
		}
	}
	if e.modelOK {
		o.Model = e.model
		for _, nv := range e.nondets {
			if nv.T == nil {
				o.Nondets = append(o.Nondets, NondetRec{Kind: nv.Kind, Val: uint64(nv.Conc)})
			} else {
				o.Nondets = append(o.Nondets, NondetRec{Name: nv.T.Name, W: nv.T.Sort.W, Kind: nv.Kind, Val: e.evalModel(nv.T)})
			}
		}
		// evaluate observations lazily recorded as terms
		o.Tags = map[string]bool{}
		for k, t := range e.tags {
			o.Tags[k] = e.evalModel(t) == 1
		}
		for _, ob := range e.obs {
			o.Obs = append(o.Obs, e.renderObs(ob))
		}
	}
	return o
}

type obsRec struct {
	Name   string
	T      *term.T
	Signed bool
	S      string
}

func (e *Exec) renderObs(o obsRec) string {
	if o.T == nil {
		return o.Name + "=" + o.S
	}
	v := e.evalModel(o.T)
	switch {
	case o.T.Sort.K == term.Bool:
		if v == 1 {
			return o.Name + "=true"
		}
		return o.Name + "=false"
	case o.T.Sort.K == term.FP:
		return fmt.Sprintf("%s=fp:%x", o.Name, v)
	case o.Signed:
		w := uint(o.T.Sort.W)
		return fmt.Sprintf("%s=%d", o.Name, int64(v<<(64-w))>>(64-w))
	}
	return fmt.Sprintf("%s=%d", o.Name, v)
}

func (e *Exec) where() string {
	if e.cur == nil || len(e.cur.Frames) == 0 {
		return ""
	}
	f := e.cur.Frames[len(e.cur.Frames)-1]
	if f.Block != nil && f.IP < len(f.Block.Instrs) {
		return e.posOf(f.Block.Instrs[f.IP]) + " in " + fnName(f.Fn)
	}
	return fnName(f.Fn)
}

var (
	posCache    sync.Map // ssa.Instruction -> string
	fnNameCache sync.Map // *ssa.Function -> string
)

// fnName is the function's String() (which formats on every call), cached.
func fnName(fn *ssa.Function) string {
	if s, ok := fnNameCache.Load(fn); ok {
		return s.(string)
	}
	s := fn.String()
	fnNameCache.Store(fn, s)
	return s
}

func (e *Exec) posOf(in ssa.Instruction) string {
	if s, ok := posCache.Load(in); ok {
		return s.(string)
	}
	s := e.posOf0(in)
	posCache.Store(in, s)
	return s
}

func (e *Exec) posOf0(in ssa.Instruction) string {
	p := in.Pos()
	if !p.IsValid() {
		// search neighbours for a valid position
		b := in.Block()
		if b != nil {
			for _, x := range b.Instrs {
				if x.Pos().IsValid() {
					p = x.Pos()
					if x == in {
						break
					}
				}
			}
		}
	}
	if !p.IsValid() {
		return in.Parent().String()
	}
	ps := e.Prog.Fset.Position(p)
	fn := ps.Filename
	if rd := e.World.RepoDir; rd != "" && strings.HasPrefix(fn, rd+"/") {
		fn = fn[len(rd)+1:]
	} else if i := strings.Index(fn, "/repo/"); i >= 0 {
		fn = fn[i+6:]
	}
	return fmt.Sprintf("%s:%d", fn, ps.Line)
}

func (e *Exec) goPanic(msg string) {
	panic(goPanicSig{msg: msg, val: Iface{T: types.Typ[types.String], V: e.strConst(msg)}})
}

func (e *Exec) unsupported(format string, a ...interface{}) {
	panic(pathEnd{kind: "unsupported", detail: fmt.Sprintf(format, a...), site: e.where() + e.stack()})
}

func (e *Exec) stack() string {
	if e.cur == nil {
		return ""
	}
	s := " stack:"
	for i := len(e.cur.Frames) - 1; i >= 0 && i >= len(e.cur.Frames)-8; i-- {
		f := e.cur.Frames[i]
		if f.Fn != nil {
			s += " < " + fnName(f.Fn)
		}
	}
	return s
}

// ---- exploration ---------------------------------------------------------------------

type Result struct {
	Outcomes []Outcome // non-ok outcomes (violations / incomplete), capped
	ByKind   map[string]int
	Covers   map[string]int
	Paths    int
	Samples  []Outcome // a few ok paths with models for validation
	Capped   bool
	Elapsed  time.Duration
}

// Explore runs the DFS over decision vectors for one harness instance.
func (e *Exec) Explore(fn *ssa.Function, args []int64, maxSamples int, stopOnViolation bool) Result {
	t0 := time.Now()
	res := Result{ByKind: map[string]int{}, Covers: map[string]int{}}
	stack := [][]Decision{nil}
	for len(stack) > 0 {
		if e.Cfg.MaxPaths > 0 && res.Paths >= e.Cfg.MaxPaths {
			res.Capped = true
			break
		}
		prefix := stack[len(stack)-1]
		stack = stack[:len(stack)-1]
		out := e.RunPath(fn, args, prefix)
		res.Paths++
		res.ByKind[out.Kind]++
		for _, c := range out.Covers {
			res.Covers[c]++
		}
		switch out.Kind {
		case "ok":
			if len(res.Samples) < maxSamples && out.Model != nil {
				res.Samples = append(res.Samples, out)
			}
		case "infeasible":
		default:
			if len(res.Outcomes) < 200 {
				res.Outcomes = append(res.Outcomes, out)
			}
		}
		// schedule alternatives
		start := len(prefix) - 1
		if start < 0 {
			start = 0
		}
		d := out.Dec
		for i := start; i < len(d); i++ {
			var alt *Decision
			switch d[i].Kind {
			case DBranch, DConc:
				if d[i].K == 0 && d[i].N == 2 {
					a := d[i]
					a.K = 1
					alt = &a
				}
			case DChoice:
				if d[i].K+1 < d[i].N {
					a := d[i]
					a.K++
					alt = &a
				}
			}
			if alt != nil {
				np := make([]Decision, i+1)
				copy(np, d[:i])
				for j := 0; j < i; j++ {
					np[j].AltModel = nil
				}
				np[i] = *alt
				stack = append(stack, np)
			}
		}
		if stopOnViolation && len(res.Outcomes) > 0 && out.Kind != "ok" && out.Kind != "infeasible" {
			// keep going: the caller decides; stop only on engine errors
			if out.Kind == "engine-error" {
				break
			}
		}
	}
	res.Elapsed = time.Since(t0)
	return res
}

func sortedKeys(m map[string]bool) []string {
	var k []string
	for s := range m {
		k = append(k, s)
	}
	sort.Strings(k)
	return k
}
