//go:build verif

package knxnet

import (
	"bytes"

	"github.com/vapourismo/knx-go/knx/cemi"
)

func init() {
	verifHarnesses["HarnessC02Service"] = HarnessC02Service
}

func c02HostInfo() HostInfo {
	return HostInfo{Protocol: Protocol(nondetU8()), Address: Address{nondetU8(), nondetU8(), nondetU8(), nondetU8()}, Port: Port(nondetU16())}
}

// c02Cemi builds a symbolic cEMI message. kind: 0..2 L_Data req/con/ind with application
// data, 3..5 with a control unit, 6..8 L_Raw req/con/ind, 9 L_Busmon.ind, 10 unsupported code.
func c02Cemi(kind, infoLen, dataLen int) cemi.Message {
	switch {
	case kind <= 5:
		ld := cemi.LData{Info: cemi.Info(nondetBytes(infoLen)), Control1: cemi.ControlField1(nondetU8()),
			Control2: cemi.ControlField2(nondetU8()), Source: cemi.IndividualAddr(nondetU16()), Destination: nondetU16()}
		if infoLen == 0 {
			ld.Info = nil
		}
		numbered := nondetBool()
		seq := nondetU8() & 15
		if !numbered {
			seq = 0
		}
		if kind <= 2 {
			data := nondetBytes(dataLen)
			if dataLen > 0 {
				data[0] &= 0x3F
			}
			ld.Data = &cemi.AppData{Numbered: numbered, SeqNumber: seq, Command: cemi.APCI(nondetU8() & 15), Data: data}
		} else {
			ld.Data = &cemi.ControlData{Numbered: numbered, SeqNumber: seq, Command: nondetU8() & 3}
		}
		switch kind % 3 {
		case 0:
			return &cemi.LDataReq{LData: ld}
		case 1:
			return &cemi.LDataCon{LData: ld}
		}
		return &cemi.LDataInd{LData: ld}
	case kind == 6:
		return &cemi.LRawReq{LRaw: cemi.LRaw(nondetBytes(dataLen))}
	case kind == 7:
		return &cemi.LRawCon{LRaw: cemi.LRaw(nondetBytes(dataLen))}
	case kind == 8:
		return &cemi.LRawInd{LRaw: cemi.LRaw(nondetBytes(dataLen))}
	case kind == 9:
		m := cemi.LBusmonInd(nondetBytes(dataLen))
		return &m
	}
	code := nondetU8()
	verifAssume(code != 0x2B && code != 0x11 && code != 0x29 && code != 0x2E && code != 0x10 && code != 0x2D && code != 0x2F)
	return &cemi.UnsupportedMessage{Code: cemi.MessageCode(code), Data: nondetBytes(dataLen)}
}

func c02TpduEqual(a, b cemi.TransportUnit) bool {
	switch x := a.(type) {
	case *cemi.AppData:
		y, ok := b.(*cemi.AppData)
		return ok && x.Numbered == y.Numbered && x.SeqNumber == y.SeqNumber && x.Command == y.Command && bytes.Equal(x.Data, y.Data)
	case *cemi.ControlData:
		y, ok := b.(*cemi.ControlData)
		return ok && *x == *y
	}
	return false
}

func c02LDataEqual(x, y *cemi.LData) bool {
	return bytes.Equal(x.Info, y.Info) && x.Control1 == y.Control1 && x.Control2 == y.Control2 &&
		x.Source == y.Source && x.Destination == y.Destination && c02TpduEqual(x.Data, y.Data)
}

// c02CemiEqual: same message code, same dynamic type, equal fields.
func c02CemiEqual(a, b cemi.Message) bool {
	if a == nil || b == nil || a.MessageCode() != b.MessageCode() {
		return false
	}
	switch x := a.(type) {
	case *cemi.LDataReq:
		y, ok := b.(*cemi.LDataReq)
		return ok && c02LDataEqual(&x.LData, &y.LData)
	case *cemi.LDataCon:
		y, ok := b.(*cemi.LDataCon)
		return ok && c02LDataEqual(&x.LData, &y.LData)
	case *cemi.LDataInd:
		y, ok := b.(*cemi.LDataInd)
		return ok && c02LDataEqual(&x.LData, &y.LData)
	case *cemi.LRawReq:
		y, ok := b.(*cemi.LRawReq)
		return ok && bytes.Equal(x.LRaw, y.LRaw)
	case *cemi.LRawCon:
		y, ok := b.(*cemi.LRawCon)
		return ok && bytes.Equal(x.LRaw, y.LRaw)
	case *cemi.LRawInd:
		y, ok := b.(*cemi.LRawInd)
		return ok && bytes.Equal(x.LRaw, y.LRaw)
	case *cemi.LBusmonInd:
		y, ok := b.(*cemi.LBusmonInd)
		return ok && bytes.Equal(*x, *y)
	case *cemi.UnsupportedMessage:
		y, ok := b.(*cemi.UnsupportedMessage)
		return ok && x.Code == y.Code && bytes.Equal(x.Data, y.Data)
	}
	return false
}

func c02DeviceInfo(nameLen int) DeviceInformationBlock {
	d := DeviceInformationBlock{Type: DescriptionTypeDeviceInfo, Medium: KNXMedium(nondetU8()), Status: DeviceStatus(nondetU8()),
		Source: cemi.IndividualAddr(nondetU16()), ProjectIdentifier: ProjectInstallationIdentifier(nondetU16()),
		HardwareAddr: nondetBytes(6)}
	copy(d.SerialNumber[:], nondetBytes(6))
	copy(d.RoutingMulticastAddress[:], nondetBytes(4))
	rs := make([]rune, nameLen)
	for i := range rs {
		c := nondetU8()
		verifAssume(c != 0)
		rs[i] = rune(c)
	}
	d.FriendlyName = string(rs)
	return d
}

func c02Families(n int) SupportedServicesDIB {
	s := SupportedServicesDIB{Type: DescriptionTypeSupportedServiceFamilies}
	for i := 0; i < n; i++ {
		s.Families = append(s.Families, ServiceFamily{Type: ServiceFamilyType(nondetU8()), Version: nondetU8()})
	}
	return s
}

func c02DevEqual(x, y *DeviceInformationBlock) bool {
	return x.Type == y.Type && x.Medium == y.Medium && x.Status == y.Status && x.Source == y.Source &&
		x.ProjectIdentifier == y.ProjectIdentifier && x.SerialNumber == y.SerialNumber &&
		x.RoutingMulticastAddress == y.RoutingMulticastAddress && bytes.Equal(x.HardwareAddr, y.HardwareAddr) &&
		x.FriendlyName == y.FriendlyName
}

func c02FamEqual(x, y *SupportedServicesDIB) bool {
	if x.Type != y.Type || len(x.Families) != len(y.Families) {
		return false
	}
	for i := range x.Families {
		if x.Families[i] != y.Families[i] {
			return false
		}
	}
	return true
}

// HarnessC02Service: a = {service 0..12, cEMI kind, info length, payload length, families, name length}.
// Encode a fully symbolic value, decode the bytes, compare type and fields.
func HarnessC02Service(a []int) {
	svc, kind, infoLen, dataLen, nfam, nameLen := a[0], a[1], a[2], a[3], a[4], a[5]
	var v ServicePackable
	switch svc {
	case 0:
		v = &ConnReq{Control: c02HostInfo(), Tunnel: c02HostInfo(), Layer: TunnelLayer(nondetU8())}
	case 1:
		r := &ConnRes{Channel: nondetU8(), Status: ErrCode(nondetU8())}
		if r.Status == 0 {
			r.Control = c02HostInfo()
		}
		v = r
	case 2:
		v = &ConnStateReq{Channel: nondetU8(), Status: ErrCode(nondetU8()), Control: c02HostInfo()}
	case 3:
		v = &ConnStateRes{Channel: nondetU8(), Status: ErrCode(nondetU8())}
	case 4:
		v = &DiscReq{Channel: nondetU8(), Status: nondetU8(), Control: c02HostInfo()}
	case 5:
		v = &DiscRes{Channel: nondetU8(), Status: nondetU8()}
	case 6:
		v = &TunnelReq{Channel: nondetU8(), SeqNumber: nondetU8(), Payload: c02Cemi(kind, infoLen, dataLen)}
	case 7:
		v = &TunnelRes{Channel: nondetU8(), SeqNumber: nondetU8(), Status: ErrCode(nondetU8())}
	case 8:
		v = &RoutingInd{Payload: c02Cemi(kind, infoLen, dataLen)}
	case 9:
		v = &SearchReq{HostInfo: c02HostInfo()}
	case 10:
		v = &SearchRes{Control: c02HostInfo(), DescriptionB: DescriptionBlock{DeviceHardware: c02DeviceInfo(nameLen), SupportedServices: c02Families(nfam)}}
	case 11:
		v = &DescriptionReq{HostInfo: c02HostInfo()}
	case 12:
		v = &DescriptionRes{DeviceHardware: c02DeviceInfo(nameLen), SupportedServices: c02Families(nfam)}
	}
	buf := AllocAndPack(v)
	verifObserve("len", len(buf))
	var out Service
	n, err := Unpack(buf, &out)
	verifAssert("C02.decodes", err == nil)
	verifAssert("C02.consumed", n <= uint(len(buf)))
	verifAssert("C02.service_id", out.Service() == v.Service())
	same := false
	switch x := v.(type) {
	case *ConnReq:
		y, ok := out.(*ConnReq)
		same = ok && *x == *y
	case *ConnRes:
		y, ok := out.(*ConnRes)
		same = ok && *x == *y
	case *ConnStateReq:
		y, ok := out.(*ConnStateReq)
		same = ok && *x == *y
	case *ConnStateRes:
		y, ok := out.(*ConnStateRes)
		same = ok && *x == *y
	case *DiscReq:
		y, ok := out.(*DiscReq)
		same = ok && *x == *y
	case *DiscRes:
		y, ok := out.(*DiscRes)
		same = ok && *x == *y
	case *TunnelReq:
		y, ok := out.(*TunnelReq)
		same = ok && x.Channel == y.Channel && x.SeqNumber == y.SeqNumber && c02CemiEqual(x.Payload, y.Payload)
	case *TunnelRes:
		y, ok := out.(*TunnelRes)
		same = ok && *x == *y
	case *RoutingInd:
		y, ok := out.(*RoutingInd)
		same = ok && c02CemiEqual(x.Payload, y.Payload)
	case *SearchReq:
		y, ok := out.(*SearchReq)
		same = ok && *x == *y
	case *SearchRes:
		y, ok := out.(*SearchRes)
		same = ok && x.Control == y.Control && c02DevEqual(&x.DescriptionB.DeviceHardware, &y.DescriptionB.DeviceHardware) &&
			c02FamEqual(&x.DescriptionB.SupportedServices, &y.DescriptionB.SupportedServices)
	case *DescriptionReq:
		y, ok := out.(*DescriptionReq)
		same = ok && *x == *y
	case *DescriptionRes:
		y, ok := out.(*DescriptionRes)
		same = ok && c02DevEqual(&x.DeviceHardware, &y.DeviceHardware) && c02FamEqual(&x.SupportedServices, &y.SupportedServices)
	}
	verifAssert("C02.same_value", same)
	if len(a) > 6 && a[6] == 1 && (svc == 6 || svc == 8) {
		// a decoded value is the caller's: it stays what it is when the datagram buffer is reused and
		// when another frame of the same kind is decoded afterwards (a relay holds telegrams in a queue)
		for i := range buf {
			buf[i] = ^buf[i]
		}
		var v2 ServicePackable
		if svc == 6 {
			v2 = &TunnelReq{Channel: nondetU8(), SeqNumber: nondetU8(), Payload: c02Cemi(kind, infoLen, dataLen)}
		} else {
			v2 = &RoutingInd{Payload: c02Cemi(kind, infoLen, dataLen)}
		}
		var out2 Service
		_, err2 := Unpack(AllocAndPack(v2), &out2)
		verifAssert("C02.held.second_decodes", err2 == nil && c02ServiceEqual(v2.(Service), out2))
		verifAssert("C02.held.first_value_unchanged", c02ServiceEqual(v.(Service), out))
		verifCover("C02.held")
	}
	verifCover("C02.end")
}

func init() {
	verifHarnesses["HarnessC02Relay"] = HarnessC02Relay
}

// c02ServiceEqual: same dynamic type and equal fields, for every decodable service type.
func c02ServiceEqual(a, b Service) bool {
	switch x := a.(type) {
	case *ConnReq:
		y, ok := b.(*ConnReq)
		return ok && *x == *y
	case *ConnRes:
		y, ok := b.(*ConnRes)
		return ok && *x == *y
	case *ConnStateReq:
		y, ok := b.(*ConnStateReq)
		return ok && *x == *y
	case *ConnStateRes:
		y, ok := b.(*ConnStateRes)
		return ok && *x == *y
	case *DiscReq:
		y, ok := b.(*DiscReq)
		return ok && *x == *y
	case *DiscRes:
		y, ok := b.(*DiscRes)
		return ok && *x == *y
	case *TunnelReq:
		y, ok := b.(*TunnelReq)
		return ok && x.Channel == y.Channel && x.SeqNumber == y.SeqNumber && c02CemiEqual(x.Payload, y.Payload)
	case *TunnelRes:
		y, ok := b.(*TunnelRes)
		return ok && *x == *y
	case *RoutingInd:
		y, ok := b.(*RoutingInd)
		return ok && c02CemiEqual(x.Payload, y.Payload)
	case *SearchReq:
		y, ok := b.(*SearchReq)
		return ok && *x == *y
	case *SearchRes:
		y, ok := b.(*SearchRes)
		return ok && x.Control == y.Control && c02DevEqual(&x.DescriptionB.DeviceHardware, &y.DescriptionB.DeviceHardware) &&
			c02FamEqual(&x.DescriptionB.SupportedServices, &y.DescriptionB.SupportedServices)
	case *DescriptionReq:
		y, ok := b.(*DescriptionReq)
		return ok && *x == *y
	case *DescriptionRes:
		y, ok := b.(*DescriptionRes)
		return ok && c02DevEqual(&x.DeviceHardware, &y.DeviceHardware) && c02FamEqual(&x.SupportedServices, &y.SupportedServices)
	case *UnknownService:
		y, ok := b.(*UnknownService)
		return ok && x.Service() == y.Service() && bytes.Equal(x.Data, y.Data)
	}
	return false
}

// c02TpduCanonical: unnumbered units carry sequence 0 (the sequence bits are reserved then).
func c02TpduCanonical(m cemi.Message) bool {
	var ld *cemi.LData
	switch x := m.(type) {
	case *cemi.LDataReq:
		ld = &x.LData
	case *cemi.LDataCon:
		ld = &x.LData
	case *cemi.LDataInd:
		ld = &x.LData
	default:
		return true
	}
	switch u := ld.Data.(type) {
	case *cemi.AppData:
		return u.Numbered || u.SeqNumber == 0
	case *cemi.ControlData:
		return u.Numbered || u.SeqNumber == 0
	}
	return true
}

// HarnessC02Relay: a = {service id, L, first DIB type (description responses, 0 = free)}: any accepted
// byte string of an encodable type is decoded, re-encoded and decoded again; the two values must be
// equal (a relay never changes a telegram).
func HarnessC02Relay(a []int) {
	svc, L := a[0], a[1]
	data := nondetBytes(L)
	hdr := []byte{6, 0x10, byte(svc >> 8), byte(svc)}
	for i := 0; i < 4 && i < L; i++ {
		data[i] = hdr[i]
	}
	if len(a) > 2 && a[2] != 0 && L >= 8 {
		data[7] = byte(a[2])
	}
	var v1 Service
	if _, err := Unpack(data, &v1); err != nil {
		verifCover("C02.relay.rejected")
		return
	}
	p, ok := v1.(ServicePackable)
	if !ok {
		verifCover("C02.relay.not_encodable") // routing lost / busy have no encoder
		return
	}
	// validity predicate of the property (reserved parts zero, documented field limits)
	switch x := v1.(type) {
	case *TunnelReq:
		verifAssume(c02TpduCanonical(x.Payload))
	case *RoutingInd:
		verifAssume(c02TpduCanonical(x.Payload))
	case *DescriptionRes:
		verifAssume(len(x.UnknownBlocks) == 0 && len([]rune(x.DeviceHardware.FriendlyName)) <= 29)
		verifAssume(x.DeviceHardware.Type == DescriptionTypeDeviceInfo && x.SupportedServices.Type == DescriptionTypeSupportedServiceFamilies)
	case *SearchRes:
		verifAssume(len([]rune(x.DescriptionB.DeviceHardware.FriendlyName)) <= 29)
	}
	verifCover("C02.relay.accepted")
	b2 := AllocAndPack(p)
	var v2 Service
	n2, err := Unpack(b2, &v2)
	verifAssert("C02.relay.reencoded_decodes", err == nil && n2 <= uint(len(b2)))
	verifAssert("C02.relay.same_value", c02ServiceEqual(v1, v2))
	verifObserve("len2", len(b2))
}

func init() {
	verifHarnesses["HarnessC02Indications"] = HarnessC02Indications
}

// HarnessC02Indications: routing-lost and routing-busy indications have no encoder; their wire
// form is written here from the KNXnet/IP specification (service 0x0531: structure length,
// device state, 16-bit lost count; service 0x0532: structure length, device state, 16-bit wait
// time in ms, 16-bit control) and must decode to the right type with the right field values.
func HarnessC02Indications(a []int) {
	state, hi, lo := nondetU8(), nondetU8(), nondetU8()
	c1, c0 := nondetU8(), nondetU8()
	var srv Service
	lost := []byte{6, 0x10, 0x05, 0x31, 0, 10, 4, state, hi, lo}
	n, err := Unpack(lost, &srv)
	verifAssert("C02.ind.lost_decodes", err == nil && n == 10)
	rl, ok := srv.(*RoutingLost)
	verifAssert("C02.ind.lost_type", ok)
	verifAssert("C02.ind.lost_fields", uint8(rl.Status) == state && rl.Count == uint16(hi)<<8|uint16(lo))
	busy := []byte{6, 0x10, 0x05, 0x32, 0, 12, 6, state, hi, lo, c1, c0}
	n, err = Unpack(busy, &srv)
	verifAssert("C02.ind.busy_decodes", err == nil && n == 12)
	rb, ok := srv.(*RoutingBusy)
	verifAssert("C02.ind.busy_type", ok)
	verifAssert("C02.ind.busy_fields", uint8(rb.Status) == state && int64(rb.WaitTime) == int64(uint16(hi)<<8|uint16(lo))*1000000 && rb.Control == uint16(c1)<<8|uint16(c0))
	verifObserve("wait", int64(rb.WaitTime))
	verifCover("C02.ind.end")
}
