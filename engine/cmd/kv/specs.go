package main

import "strings"

var specs = map[string]*Spec{}

func reg(s *Spec) {
	if bb, ok := tunnelBB[s.ID]; ok {
		// second line for the tunnel properties: histories from the real constructor on, written
		// against the exported API only (harness/knx/zz_verif_tunnel.go)
		q, t := s.Quick, s.Thorough
		add := func(base []Inst, thorough bool) []Inst {
			for _, a := range bb {
				ctx := 2
				if a[1] == 2 && !thorough {
					ctx = 1
				}
				if a[1] == 3 {
					ctx = -1 // twelve heartbeat intervals: non-preemptive schedules
				}
				if a[1] == 4 {
					// 260 rounds of Send + inbound request on one connection: both counters wrap; one
					// schedule (no preemption, first enabled goroutine where the running one blocks)
					base = append(base, Inst{Pkg: "knx", Fn: "HarnessTunnelBB", Args: []int64{a[0], 4, a[2], 260}, Ctx: -2, Unwind: 3000, MaxSched: 100000, NoNative: true,
						Note: "black box: 260 acknowledged Sends and 260 inbound requests on one connection built by NewTunnel (both counters pass 255 -> 0), one schedule"})
					continue
				}
				base = append(base, Inst{Pkg: "knx", Fn: "HarnessTunnelBB", Args: []int64{a[0], a[1], a[2]}, Ctx: ctx, MaxSched: 30000, NoNative: true,
					Note: "black box: real NewTunnel on the redirected socket against a scripted gateway (0 traffic+Close, 1 rejected Send, 2 heartbeat failure and reconnect)"})
			}
			return base
		}
		s.Quick = func(l *loaded) []Inst { return add(q(l), false) }
		s.Thorough = func(l *loaded) []Inst { return add(t(l), true) }
		s.Covers = append(s.Covers, "BB.end")
		s.Bounds += "; black-box histories from the real constructor NewTunnel on (exported API only, channels symbolic): connect, Sends (one rejected by an error-status acknowledgement), inbound requests incl. a repetition, unanswered heartbeats followed by a reconnect, twelve answered heartbeat intervals in a row (non-preemptive schedules), 260 rounds of acknowledged Send plus inbound request on one connection so that both counters pass 255 -> 0 (one schedule: no preemption, first enabled goroutine at blocking points), Close twice - the clauses of this property asserted on what the scripted gateway saw, context bound 2 (reconnect history: 1 in the quick tier)"
	}
	specs[s.ID] = s
}

// tunnelBB: property -> {tcp, scenario, focus} instances of HarnessTunnelBB.
var tunnelBB = map[string][][3]int64{
	"C03": {{0, 0, 3}, {0, 1, 3}, {0, 2, 3}, {1, 0, 3}, {0, 4, 3}},
	"C04": {{0, 0, 4}, {0, 2, 4}, {1, 0, 4}, {0, 4, 4}, {1, 4, 4}},
	"C05": {{0, 1, 5}, {0, 4, 5}},
	"C09": {{0, 2, 9}, {0, 3, 9}},
	"C10": {{0, 0, 10}, {1, 0, 10}},
}

func init() {
	reg(&Spec{
		ID: "C11",
		Quick: func(l *loaded) []Inst {
			out := []Inst{{Pkg: "cemi", Fn: "HarnessC11Helpers"}}
			for kind := int64(0); kind < 3; kind++ {
				for dl := int64(1); dl <= 254; dl++ {
					il := []int64{0, 1, 7, 255}[dl%4]
					out = append(out, Inst{Pkg: "cemi", Fn: "HarnessC11Pack", Args: []int64{kind, il, dl, 0}},
						Inst{Pkg: "cemi", Fn: "HarnessC11Unpack", Args: []int64{kind, il, dl, 0}})
				}
				for il := int64(0); il <= 255; il++ {
					dl := []int64{1, 2, 16}[il%3]
					out = append(out, Inst{Pkg: "cemi", Fn: "HarnessC11Pack", Args: []int64{kind, il, dl, 0}},
						Inst{Pkg: "cemi", Fn: "HarnessC11Unpack", Args: []int64{kind, il, dl, 0}},
						Inst{Pkg: "cemi", Fn: "HarnessC11Pack", Args: []int64{kind, il, 0, 1}},
						Inst{Pkg: "cemi", Fn: "HarnessC11Unpack", Args: []int64{kind, il, 0, 1}})
				}
			}
			return out
		},
		Thorough: func(l *loaded) []Inst {
			out := []Inst{{Pkg: "cemi", Fn: "HarnessC11Helpers"}}
			for kind := int64(0); kind < 3; kind++ {
				for dl := int64(1); dl <= 254; dl++ {
					il := []int64{0, 1, 7, 255}[dl%4]
					out = append(out, Inst{Pkg: "cemi", Fn: "HarnessC11Pack", Args: []int64{kind, il, dl, 0}},
						Inst{Pkg: "cemi", Fn: "HarnessC11Unpack", Args: []int64{kind, il, dl, 0}})
				}
				for il := int64(0); il <= 255; il++ {
					dl := []int64{1, 2, 16}[il%3]
					out = append(out, Inst{Pkg: "cemi", Fn: "HarnessC11Pack", Args: []int64{kind, il, dl, 0}},
						Inst{Pkg: "cemi", Fn: "HarnessC11Unpack", Args: []int64{kind, il, dl, 0}},
						Inst{Pkg: "cemi", Fn: "HarnessC11Pack", Args: []int64{kind, il, 0, 1}},
						Inst{Pkg: "cemi", Fn: "HarnessC11Unpack", Args: []int64{kind, il, 0, 1}})
				}
			}
			return out
		},
		Covers:  []string{"C11.helpers.end", "C11.pack.end", "C11.unpack.end"},
		Bounds:  "both tiers: L_Data req/con/ind, every payload length 1..254 and every info length 0..255, control units; all field values (both control octets, addresses, APCI, TPCI flags/sequence, payload and info bytes) symbolic; helpers over their complete 8-bit domains",
		Outside: "payload/info lengths not enumerated in the quick tier; unnumbered units with a non-zero sequence field; oversize parts (C15)",
		Assume:  []string{"reference layout written from the cEMI specification text of the property (DESIGN B.2)"},
	})

	c18 := func(maxBytes int64, thorough bool) []Inst {
		out := []Inst{{Pkg: "cemi", Fn: "HarnessC18Ctors"}}
		for k := int64(0); k < 2; k++ {
			out = append(out, Inst{Pkg: "cemi", Fn: "HarnessC18RoundTrip", Args: []int64{k}, Note: "all 65535 non-zero addresses symbolic"})
			for l := int64(0); l <= maxBytes; l++ {
				out = append(out, Inst{Pkg: "cemi", Fn: "HarnessC18ParseBytes", Args: []int64{k, l}, Note: "every byte string of this length"})
			}
			shapes := [][]int64{{1, 1, 0, 0, 0, 0}, {1, 5, 0, 0, 0, 0}, {1, 5, 0, 0, 0, 1}, {2, 1, 1, 0, 0, 0}, {2, 2, 4, 0, 0, 0}, {2, 3, 3, 0, 0, 2},
				{3, 2, 1, 3, 0, 0}, {3, 2, 2, 3, 0, 0}, {3, 1, 1, 4, 0, 4}, {3, 2, 2, 3, 0, 1}, {4, 1, 1, 1, 1, 0}}
			if thorough {
				shapes = nil
				for n := int64(1); n <= 4; n++ {
					var rec func(pre []int64)
					rec = func(pre []int64) {
						if int64(len(pre)) == n {
							d := append([]int64{n}, pre...)
							for int64(len(d)) < 5 {
								d = append(d, 0)
							}
							shapes = append(shapes, append(append([]int64{}, d...), 0))
							shapes = append(shapes, append(append([]int64{}, d...), 1<<uint(len(pre)-1)))
							return
						}
						for _, dg := range []int64{1, 2, 3, 4, 5} {
							if n >= 3 && (dg == 5) {
								continue
							}
							rec(append(append([]int64{}, pre...), dg))
						}
					}
					if n == 4 {
						shapes = append(shapes, []int64{4, 1, 1, 1, 1, 0}, []int64{4, 2, 1, 3, 1, 0})
						continue
					}
					rec(nil)
				}
			}
			for _, sh := range shapes {
				out = append(out, Inst{Pkg: "cemi", Fn: "HarnessC18ParseShape", Args: append([]int64{k}, sh...), Note: "grammar-shaped text, symbolic digits and separators"})
			}
		}
		return out
	}
	// engine self-test: the summary of strconv.ParseInt/ParseUint (base 10, symbolic characters) against
	// an independent definition, every byte string of the length, validated natively
	selfParse := func(maxLen int64) []Inst {
		var out []Inst
		out = append(out, Inst{Pkg: "knx", Fn: "HarnessSelfTestItoa", ForceNative: true, Note: "decimal formatter behind strconv.Itoa/FormatUint/AppendUint, every 16-bit value"})
		for n := int64(0); n <= maxLen; n++ {
			for sg := int64(0); sg < 2; sg++ {
				out = append(out, Inst{Pkg: "knx", Fn: "HarnessSelfTestParse", Args: []int64{n, sg}, ForceNative: true, Note: "summary of strconv.ParseInt/ParseUint vs an independent definition"})
			}
		}
		return out
	}
	reg(&Spec{
		ID:       "C18",
		Quick:    func(l *loaded) []Inst { return append(c18(5, false), selfParse(5)...) },
		Thorough: func(l *loaded) []Inst { return append(c18(8, true), selfParse(7)...) },
		Covers:   []string{"C18.rt.end", "C18.ctor.end", "C18.parse.accept", "C18.parse.reject", "self.parse.end", "self.itoa.end"},
		Bounds:   "round trip: all 65535 non-zero addresses of both kinds (one symbolic 16-bit variable); constructors: all argument values; acceptance: every byte string of length 0..5 (quick) / 0..8 (thorough) fully symbolic against an independent recogniser of the documented language, plus grammar-shaped texts of 1..4 components with 1..5 symbolic digits each, optional signs and symbolic separator bytes",
		Outside:  "fully symbolic strings longer than 8 bytes; components longer than 5 digits; strings with non-ASCII digits are covered only as arbitrary bytes",
		Assume:   []string{"strings.Split and strconv.Atoi are executed from their real SSA; strconv.ParseInt/ParseUint in base 10 on strings with symbolic characters are summarised (sign, all-digits, range: three branches instead of several per character) - the summary is checked against an independent definition for every byte string of length 0..5 (7) and validated natively; internal/bytealg.IndexByteString/CountString and strconv.syntaxError/rangeError are engine built-ins", "fmt.Sprintf(\"%d...\") is a built-in decimal formatter validated by native replay"},
	})

	dptAll := func(l *loaded, fn string, lens func(main, sub int64) []int64) []Inst {
		var out []Inst
		for _, n := range dptNames(l) {
			for _, ln := range lens(n[0], n[1]) {
				out = append(out, Inst{Pkg: "dpt", Fn: fn, Args: []int64{n[0], n[1], ln}})
			}
		}
		return out
	}
	reg(&Spec{
		ID:     "C08",
		Solver: "cvc5",
		Quick: func(l *loaded) []Inst {
			out := dptAll(l, "HarnessC08", func(m, s int64) []int64 {
				var r []int64
				for i := int64(0); i <= 20; i++ {
					r = append(r, i)
				}
				return r
			})
			return append(out, Inst{Pkg: "dpt", Fn: "HarnessStubCalendar", Note: "native validation of the time.Date stub over years 1985..2095 and corner years x 256 months x 256 days"})
		},
		Covers:  []string{"C08.accept", "C08.reject"},
		Bounds:  "every registered type (names read from the registry initialiser of the current source) x every payload length 0..20, all payload bytes symbolic",
		Outside: "payloads longer than 20 bytes (only 28.001 accepts them; its decoder has no length-dependent branch beyond the 2-byte minimum); text produced by String()/Unit() (fmt is stubbed, index expressions are checked)",
		Assume:  []string{"time.Date/Year/Month/Day are replaced by a civil-calendar stub that is exact on valid dates and returns a different date for invalid ones", "documented ranges are those of DESIGN B.3"},
	})
	reg(&Spec{
		ID:     "C06",
		Solver: "cvc5",
		Quick: func(l *loaded) []Inst {
			return dptAll(l, "HarnessC06", func(m, s int64) []int64 {
				if m == 28 {
					return []int64{2, 3, 4, 6}
				}
				return []int64{dptWireLen(m)}
			})
		},
		Thorough: func(l *loaded) []Inst {
			return dptAll(l, "HarnessC06", func(m, s int64) []int64 {
				if m == 28 {
					var r []int64
					for i := int64(2); i <= 18; i++ {
						r = append(r, i)
					}
					return r
				}
				w := dptWireLen(m)
				return []int64{w - 1, w, w + 1}
			})
		},
		Covers:  []string{"C06.accepted"},
		Bounds:  "every registered type x its wire length (28.001: lengths 2,3,4,6 quick / 2..18 thorough), every payload bit symbolic: all 2^6..2^56 encodings per type are decided by the solver, none sampled",
		Outside: "28.001 strings longer than 16 characters",
		Assume:  []string{"byte-identity masks and documented replacements are those of DESIGN B.3"},
	})

	c07 := func(l *loaded, thorough bool) []Inst {
		var out []Inst
		rep := map[[2]int64]bool{{9, 1}: true, {9, 2}: true, {9, 4}: true, {9, 27}: true}
		for _, n := range dptNames(l) {
			m, s := n[0], n[1]
			isFloat := m == 9 || (m == 5 && (s == 1 || s == 3)) || (m == 8 && (s == 3 || s == 4 || s == 10))
			switch {
			case isFloat && m == 9 && !thorough && !rep[n]:
				out = append(out, Inst{Pkg: "dpt", Fn: "HarnessC07Float", Args: []int64{m, s, 1}, Note: "all finite float32 values outside the documented range"})
			case isFloat:
				mode := int64(0)
				if m == 9 && (thorough || s == 1) {
					mode = 2 // accuracy also against the step at the value's own magnitude (quick: 9.001 only; all 9.xxx share the 2-byte float coder)
				}
				out = append(out, Inst{Pkg: "dpt", Fn: "HarnessC07Float", Args: []int64{m, s, mode}, Note: "all finite float32 values (one symbolic 32-bit pattern)"})
				if thorough || m != 9 || rep[n] {
					out = append(out, Inst{Pkg: "dpt", Fn: "HarnessC07Mono", Args: []int64{m, s}, Note: "adjacent-float lemma over all finite float32"})
				}
			case m == 14:
				// IEEE float: exact, covered bit-exactly by C06; shape checked here through the int harness on bits
				out = append(out, Inst{Pkg: "dpt", Fn: "HarnessC07F32", Args: []int64{m, s}})
			case m == 10 || m == 11 || m == 232 || m == 242 || m == 251:
				out = append(out, Inst{Pkg: "dpt", Fn: "HarnessC07Struct", Args: []int64{m}})
			case m == 16 || m == 28:
				lens := []int64{0, 1, 2, 13, 14, 15, 16}
				if thorough {
					lens = []int64{0, 1, 2, 3, 5, 8, 12, 13, 14, 15, 16, 20, 40}
				}
				for _, ln := range lens {
					pairs := [][2]int64{{0, ln - 1}}
					if thorough {
						pairs = [][2]int64{{0, ln - 1}, {1, 13}, {13, 14}, {12, 15}, {ln / 2, ln - 2}}
					}
					for _, p := range pairs {
						out = append(out, Inst{Pkg: "dpt", Fn: "HarnessC07String", Args: []int64{m, s, ln, p[0], p[1]}, Note: "runes at the two given positions fully symbolic, the others fixed"})
					}
				}
				if ln := int64(3); true {
					out = append(out, Inst{Pkg: "dpt", Fn: "HarnessC07String", Args: []int64{m, s, ln, -1, -1}, Note: "all runes symbolic"})
				}
			default:
				out = append(out, Inst{Pkg: "dpt", Fn: "HarnessC07Int", Args: []int64{m, s}})
			}
		}
		return out
	}
	reg(&Spec{
		ID:     "C07",
		Solver: "cvc5",
		Quick: func(l *loaded) []Inst {
			return append(c07(l, false), Inst{Pkg: "dpt", Fn: "HarnessSelfTestMaxMin", ForceNative: true, Note: "engine model of math.Max/math.Min vs their documented special cases, all pairs of float64 bit patterns"})
		},
		Thorough: func(l *loaded) []Inst {
			return append(c07(l, true), Inst{Pkg: "dpt", Fn: "HarnessSelfTestMaxMin", ForceNative: true})
		},
		Covers:  []string{"C07.inrange", "C07.above", "C07.below", "C07.mono.end", "C07.int.end", "C07.struct.valid", "C07.struct.invalid", "C07.string.end", "self.maxmin.end"},
		Bounds:  "float-valued types (5.001, 5.003, 8.003/4/10, all 9.xxx): the complete finite float32 domain as one symbolic 32-bit pattern: accuracy (within the step of the exponent chosen; for 9.001 - thorough: every 9.xxx - also within the step of the smallest exponent that can hold the value, so a needlessly coarse exponent is a violation), saturation (incl. the bounds themselves being encoded accurately), shape, self-decodability; monotonicity by the adjacent-float lemma (quick: 5.xxx, 8.xxx and the four distinct clamp pairs of 9.xxx; thorough: every type); integer/bool/enumeration types: all values; struct types: all field values including invalid combinations; strings: lengths 0..16 (thorough ..40) with two fully symbolic rune positions, and 3 fully symbolic runes",
		Outside: "strings with more than two simultaneously symbolic runes beyond length 3; in the quick tier in-range accuracy and monotonicity of the 9.xxx types are decided for the four distinct clamp pairs (9.001, 9.002, 9.004, 9.027) and only saturation/shape for the other sixteen (all share packF16; C06 decides their in-range re-encoding per type)",
		Assume:  []string{"tolerance step*(1+2^-10) absorbs the decoder's own float32 evaluation error (DESIGN B.3)"},
	})

	c01 := func(maxL int64, descrL int64) []Inst {
		var out []Inst
		svcs := []int64{0x0201, 0x0202, 0x0203, 0x0204, 0x0205, 0x0206, 0x0207, 0x0208, 0x0209, 0x020a, 0x0420, 0x0421, 0x0530, 0x0531, 0x0532, 0x0999, -1}
		for _, svc := range svcs {
			for _, g := range []int64{0, 32} {
				for L := int64(0); L <= maxL; L++ {
					if (svc == 0x0204 || svc == -1) && L > descrL {
						break
					}
					out = append(out, Inst{Pkg: "knxnet", Fn: "HarnessC01Unpack", Args: []int64{svc, L, g, 0}, Unwind: int(L) + 12})
				}
			}
		}
		for _, g := range []int64{0, 32} {
			// description responses, case split on the first DIB's type octet
			for L := int64(8); L <= 63; L++ {
				if L > descrL {
					out = append(out, Inst{Pkg: "knxnet", Fn: "HarnessC01Unpack", Args: []int64{0x0204, L, g, 1}, Unwind: int(L) + 12, Note: "first DIB = device information"})
				}
			}
			for _, t1 := range []int64{2, 3, 0xfe, 0x77} {
				for L := descrL + 1; L <= descrL+2; L++ {
					out = append(out, Inst{Pkg: "knxnet", Fn: "HarnessC01Unpack", Args: []int64{0x0204, L, g, t1}, Unwind: int(L) + 12, Note: "first DIB type fixed"})
				}
			}
			// search responses around their nominal size
			for L := int64(66); L <= 78; L++ {
				if L > maxL {
					out = append(out, Inst{Pkg: "knxnet", Fn: "HarnessC01Unpack", Args: []int64{0x0202, L, g, 0}, Unwind: int(L) + 12})
				}
			}
			if g == 0 {
				// receiver clause: a malformed datagram/frame does not prevent later well-formed ones
				for _, L := range []int64{-1, 1, 6, 8, 10, 12} {
					out = append(out, Inst{Pkg: "knxnet", Fn: "HarnessC16UDP", Args: []int64{1, 3, L}, NoNative: true, Note: "UDP receiver: arbitrary (L = -1: empty) datagram first"})
				}
				out = append(out, Inst{Pkg: "knxnet", Fn: "HarnessC16TCPBad", Args: []int64{0, 1}, NoNative: true, UnwindIsHang: true}, Inst{Pkg: "knxnet", Fn: "HarnessC16TCPBad", Args: []int64{1, 1}, NoNative: true, UnwindIsHang: true})
			}
			codes := []int64{0x2B, 0x11, 0x29, 0x2E, 0x10, 0x2D, 0x2F, 0x77, -1}
			for _, code := range codes {
				for L := int64(0); L <= maxL; L++ {
					out = append(out, Inst{Pkg: "cemi", Fn: "HarnessC01Cemi", Args: []int64{code, L, g}, Unwind: int(L) + 12})
				}
			}
		}
		return out
	}
	reg(&Spec{
		ID:       "C01",
		Quick:    func(l *loaded) []Inst { return c01(20, 13) },
		Thorough: func(l *loaded) []Inst { return c01(64, 15) },
		Covers:   []string{"C01.accepted", "C01.rejected"},
		Bounds:   "knxnet.Unpack under each of the 15 service identifiers, an unknown identifier and a fully symbolic header, cemi.Unpack under the 7 message codes, another code and a symbolic code; every datagram length 0..20 (quick) / 0..64 (thorough), every byte symbolic; each decoded from an exact-capacity slice (G=0) and as a prefix of a buffer with 32 symbolic garbage bytes behind it; description responses: fully symbolic up to 13 (15) bytes, beyond that case-split on the first DIB type (device information up to 63 bytes, others two bytes further); search responses additionally at 66..78 bytes",
		Outside:  "datagrams longer than the stated lengths (up to 1024); sequences of more than ~5 small description blocks; receiver runs longer than two datagrams/frames (see C16)",
		Assume:   []string{"obligations: no panic, loop bound length+12 never reached (termination), accepted => consumed <= length, no read of a byte at or beyond the datagram length (engine region check; natively confirmed by re-running with different garbage)"},
	})

	c02 := func(thorough bool) []Inst {
		var out []Inst
		add := func(args ...int64) {
			out = append(out, Inst{Pkg: "knxnet", Fn: "HarnessC02Service", Args: args})
		}
		for _, svc := range []int64{0, 1, 2, 3, 4, 5, 7, 9, 11} {
			add(svc, 0, 0, 0, 0, 0)
		}
		// a decoded telegram stays what it is when the buffer is reused and another telegram of the same
		// kind is decoded afterwards: one instance per cEMI kind, through both carrying services
		for _, svc := range []int64{6, 8} {
			for kind := int64(0); kind <= 10; kind++ {
				add(svc, kind, 1, 3, 0, 0, 1)
			}
		}
		infos := []int64{0, 1, 2, 255}
		datas := []int64{1, 2, 15, 16, 254}
		raws := []int64{0, 1, 5}
		if thorough {
			infos, datas, raws = nil, nil, nil
			for i := int64(0); i <= 255; i++ {
				infos = append(infos, i)
			}
			for i := int64(1); i <= 254; i++ {
				datas = append(datas, i)
			}
			for i := int64(0); i <= 40; i++ {
				raws = append(raws, i)
			}
		}
		for _, svc := range []int64{6, 8} {
			for kind := int64(0); kind <= 5; kind++ {
				if thorough {
					for _, il := range infos {
						add(svc, kind, il, datas[int(il)%len(datas)], 0, 0)
					}
					for _, dl := range datas {
						add(svc, kind, []int64{0, 1, 9}[dl%3], dl, 0, 0)
					}
					continue
				}
				for _, il := range infos {
					for _, dl := range datas {
						if kind >= 3 && dl != 1 {
							continue
						}
						add(svc, kind, il, dl, 0, 0)
					}
				}
			}
			for kind := int64(6); kind <= 10; kind++ {
				for _, rl := range raws {
					add(svc, kind, 0, rl, 0, 0)
				}
			}
		}
		fams := []int64{0, 1, 2}
		names := []int64{0, 1, 29}
		if thorough {
			fams, names = nil, nil
			for i := int64(0); i <= 20; i++ {
				fams = append(fams, i)
			}
			for i := int64(0); i <= 29; i++ {
				names = append(names, i)
			}
		}
		for _, svc := range []int64{10, 12} {
			for _, nf := range fams {
				for _, nl := range names {
					if thorough && nf%3 != nl%3 {
						continue
					}
					add(svc, 0, 0, 0, nf, nl)
				}
			}
		}
		return out
	}
	c02relay := func(maxL int64) []Inst {
		var out []Inst
		for _, svc := range []int64{0x0201, 0x0202, 0x0203, 0x0205, 0x0206, 0x0207, 0x0208, 0x0209, 0x020a, 0x0420, 0x0421, 0x0530, 0x0531, 0x0999} {
			for L := int64(6); L <= maxL; L++ {
				out = append(out, Inst{Pkg: "knxnet", Fn: "HarnessC02Relay", Args: []int64{svc, L, 0}, Unwind: int(L) + 40, Note: "decode -> re-encode -> decode of every accepted byte string"})
			}
		}
		for L := int64(60); L <= 66; L++ {
			out = append(out, Inst{Pkg: "knxnet", Fn: "HarnessC02Relay", Args: []int64{0x0204, L, 1}, Unwind: 200})
		}
		for L := int64(68); L <= 74; L++ {
			out = append(out, Inst{Pkg: "knxnet", Fn: "HarnessC02Relay", Args: []int64{0x0202, L, 0}, Unwind: 200})
		}
		return out
	}
	reg(&Spec{
		ID: "C02",
		Quick: func(l *loaded) []Inst {
			return append(append(c02(false), c02relay(24)...), Inst{Pkg: "knxnet", Fn: "HarnessC02Indications", Note: "decode-only services written from the specification"})
		},
		Thorough: func(l *loaded) []Inst {
			return append(append(c02(true), c02relay(48)...), Inst{Pkg: "knxnet", Fn: "HarnessC02Indications"})
		},
		Covers:  []string{"C02.end", "C02.held", "C02.relay.accepted", "C02.relay.rejected", "C02.ind.end"},
		Bounds:  "encode->decode of every encodable service type (connect, connection-state, disconnect req/res, tunnelling req/ack, routing indication, search/description req/res) x every cEMI kind (L_Data req/con/ind with application and control units, L_Raw req/con/ind, L_Busmon.ind, unsupported code); all field values symbolic; quick: info length {0,1,2,255}, payload {1,2,15,16,254}, raw {0,1,5}, families {0,1,2}, name length {0,1,29}; thorough: every info length 0..255, payload 1..254, raw 0..40, families 0..20, names 0..29; a decoded telegram of every cEMI kind held while the buffer is overwritten and a second telegram of the same kind is decoded; plus decode -> re-encode -> decode of fully symbolic byte strings (see outside_bounds for the lengths)",
		Outside: "decode->re-encode->decode: every byte string of length 6..24 (thorough ..48) under each service identifier, description responses of 60..66 bytes with a device-information DIB first, search responses of 68..74 bytes; longer strings; lengths not enumerated in the quick tier of the encode->decode direction",
		Assume:  []string{"validity predicate: first payload byte < 64, unnumbered units carry sequence 0, hardware address 6 bytes, friendly name of non-NUL Latin-1 characters, DIB type octets 1 and 2", "x/text single-byte character maps (charmap.*) replaced by a built-in byte<->rune map built from the map's own table in the host's copy of x/text v0.14.0 (ISO 8859-1 on the current tree)"},
	})

	c15 := func(thorough bool) []Inst {
		var out []Inst
		for _, in := range c02(false) {
			a := append(append([]int64{}, in.Args...), 0)
			out = append(out, Inst{Pkg: "knxnet", Fn: "HarnessC15Pack", Args: a, Unwind: 2000})
			if a[2] <= 2 && a[3] <= 16 {
				out = append(out, Inst{Pkg: "knxnet", Fn: "HarnessC15Send", Args: a, Unwind: 2000},
					Inst{Pkg: "knxnet", Fn: "HarnessC15SendRouter", Args: a, Unwind: 2000, NoNative: true})
			}
		}
		over := []int64{256, 300}
		names := []int64{30, 31}
		if thorough {
			over = []int64{255, 256, 257, 300, 400, 511, 512, 600}
			names = []int64{29, 30, 31, 32, 40, 60, 80}
		}
		for _, svc := range []int64{6, 8} {
			for kind := int64(0); kind <= 2; kind++ {
				for _, o := range over {
					out = append(out, Inst{Pkg: "knxnet", Fn: "HarnessC15Pack", Args: []int64{svc, kind, o, 2, 0, 0, 0}, Unwind: 2000, Note: "oversize additional info"},
						Inst{Pkg: "knxnet", Fn: "HarnessC15Pack", Args: []int64{svc, kind, 1, o, 0, 0, 0}, Unwind: 2000, Note: "oversize application data"})
				}
				out = append(out, Inst{Pkg: "knxnet", Fn: "HarnessC15Pack", Args: []int64{svc, kind, 1, 0, 0, 0, 0}, Unwind: 2000, Note: "empty application data"})
			}
		}
		for _, svc := range []int64{10, 12} {
			for _, hw := range []int64{2, 3, 4} {
				out = append(out, Inst{Pkg: "knxnet", Fn: "HarnessC15Pack", Args: []int64{svc, 0, 0, 0, 1, 3, hw}, Unwind: 2000, Note: "hardware address of 0 (zero value) / 8 / 5 bytes"},
					Inst{Pkg: "knxnet", Fn: "HarnessC15Pack", Args: []int64{svc, 0, 0, 0, 0, 29, hw}, Unwind: 2000})
			}
			for _, nl := range names {
				out = append(out, Inst{Pkg: "knxnet", Fn: "HarnessC15Pack", Args: []int64{svc, 0, 0, 0, 1, nl, 0}, Unwind: 2000, Note: "over-long friendly name"})
			}
			for _, nl := range []int64{1, 5, 29, 30, 40} {
				out = append(out, Inst{Pkg: "knxnet", Fn: "HarnessC15Pack", Args: []int64{svc, 0, 0, 0, 1, nl, 1}, Unwind: 2000, Note: "name with a rune beyond Latin-1"})
			}
			out = append(out, Inst{Pkg: "knxnet", Fn: "HarnessC15PackSeq", Args: []int64{svc, 8, 3, 1}, Unwind: 2000, Note: "two encodings in a row: no state carried over"},
				Inst{Pkg: "knxnet", Fn: "HarnessC15PackSeq", Args: []int64{svc, 29, 0, 0}, Unwind: 2000},
				Inst{Pkg: "knxnet", Fn: "HarnessC15PackSeq", Args: []int64{svc, 12, 5, 0}, Unwind: 2000})
		}
		return out
	}
	reg(&Spec{
		ID:       "C15",
		Quick:    func(l *loaded) []Inst { return c15(true) }, // the full set takes a few seconds: both tiers run it
		Thorough: func(l *loaded) []Inst { return c15(true) },
		Covers:   []string{"C15.end", "C15.send.end", "C15.sendrouter.end", "C15.packseq.end"},
		Bounds:   "every value shape of C02 (quick bounds) plus oversize parts: additional info and application data of 255..600 bytes, empty application data, friendly names of 29..80 characters and names with a rune beyond Latin-1, hardware addresses of 0 (the zero value), 5 and 8 bytes; buffer of exactly Size() bytes pre-filled with symbolic stale bytes, followed by 8 guard bytes; TunnelSocket.Send through a recording net.Conn and RouterSocket.Send through the WriteToUDP stub",
		Outside:  "stale-independence is decided syntactically on the output terms (no output byte may mention a stale variable) and confirmed natively by re-running with different stale bytes",
	})

	reg(&Spec{
		ID:     "C19",
		Solver: "cvc5",
		Quick: func(l *loaded) []Inst {
			out := []Inst{{Pkg: "dpt", Fn: "HarnessC19Names", Unwind: 40000}}
			for _, n := range dptNames(l) {
				out = append(out, Inst{Pkg: "dpt", Fn: "HarnessC19Entry", Args: []int64{n[0], n[1]}})
			}
			for L := int64(0); L <= 8; L++ {
				out = append(out, Inst{Pkg: "dpt", Fn: "HarnessC19Unknown", Args: []int64{L}, Unwind: 2000, Note: "every string of this length"})
			}
			seen := map[int64]int{}
			for _, n := range dptNames(l) {
				seen[n[0]]++
				if (n[0] == 9 || n[0] == 14) && seen[n[0]] > 2 {
					continue // look-alike float types: two representatives (every type is covered by HarnessC19Entry)
				}
				out = append(out, Inst{Pkg: "dpt", Fn: "HarnessC19Concurrent", Args: []int64{n[0], n[1]}, Race: true, NoNative: true, Note: "two goroutines produce and decode concurrently; happens-before race check on datapoint objects"})
			}
			seenMain := map[int64]bool{}
			for _, n := range dptNames(l) {
				if seenMain[n[0]] {
					continue
				}
				seenMain[n[0]] = true
				out = append(out, Inst{Pkg: "dpt", Fn: "HarnessC19Many", Args: []int64{n[0], n[1], 70}, Unwind: 8000, Note: "70 instances of one name in a row (one name per main number)"})
			}
			return out
		},
		Extra:   c19Completeness,
		Covers:  []string{"C19.entry.end", "C19.names.end", "C19.known", "C19.unknown", "C19.conc.end", "C19.conc.both_decoded", "C19.many.end"},
		Bounds:  "the registry initialiser of the current source is executed; every listed name: producible, type name = *dpt.DPT_<digits>, instances distinct, a decode of a fully symbolic payload into one instance leaves other and later instances at the zero value; 70 instances of one name in a row (one name per main number) pairwise distinct, each a zero value when handed out; every string of length 0..8 (fully symbolic) is produced exactly when it is listed; completeness: every exported DPT_* type implementing Datapoint (enumerated with go/types) is the dynamic type of an entry",
		Outside: "names longer than 8 bytes (the longest key has 7); more than two concurrent goroutines (two goroutines producing and decoding at the same time are explored for every type - two representatives of the 9.xxx and 14.xxx look-alikes - under the vector-clock race check on datapoint objects; more goroutines add no new sharing pattern: instances are distinct objects and decode writes only its receiver)",
		Assume:  []string{"reflect.TypeOf(x).Elem() / reflect.New(t).Interface() are modelled as: fresh zero object of the pointee type", "three-digit sub-number is read as at least three digits (14.1200 is a genuine KNX identifier)"},
	})

	c12 := func(thorough bool) []Inst {
		var out []Inst
		lens := []int64{0, 1, 2, 15, 16, 254}
		if thorough {
			lens = nil
			for i := int64(0); i <= 254; i++ {
				lens = append(lens, i)
			}
		}
		for _, n := range lens {
			out = append(out, Inst{Pkg: "knx", Fn: "HarnessC12OutWB", Args: []int64{n}, Unwind: 2000, Note: "white box: GroupTunnel on a directly constructed TCP-mode tunnel"},
				// clients built by the real constructors on the redirected sockets: engine-only
				Inst{Pkg: "knx", Fn: "HarnessC12Out", Args: []int64{1, n}, Unwind: 2000, NoNative: true, Note: "NewGroupRouter"},
				Inst{Pkg: "knx", Fn: "HarnessC12Out", Args: []int64{2, n}, Unwind: 2000, NoNative: true, Ctx: 2, Note: "NewGroupTunnel against a scripted gateway"},
				Inst{Pkg: "knx", Fn: "HarnessC12E2E", Args: []int64{n}, Unwind: 2000, NoNative: true})
		}
		for kind := int64(0); kind <= 10; kind++ {
			for _, n := range []int64{1, 2, 16} {
				out = append(out, Inst{Pkg: "knx", Fn: "HarnessC12In", Args: []int64{kind, n}})
			}
		}
		for client := int64(0); client < 2; client++ {
			for code := int64(0); code < 16; code++ {
				for grp := int64(0); grp < 2; grp++ {
					out = append(out, Inst{Pkg: "knx", Fn: "HarnessC12InBB", Args: []int64{client, code, grp, 2}, NoNative: true, Ctx: 2, Note: "indication entering through the socket of a constructor-built client"})
				}
			}
		}
		out = append(out, Inst{Pkg: "knx", Fn: "HarnessC17", Args: []int64{2, 20, 0}, Ctx: -1, NoNative: true, Note: "20 group events in a row: the payload of every event handed out stays what it was"})
		for cl := int64(0); cl < 2; cl++ {
			for pend := int64(0); pend <= 2; pend++ {
				out = append(out, Inst{Pkg: "knx", Fn: "HarnessC12CloseBB", Args: []int64{cl, pend}, Ctx: 2, NoNative: true, Note: "events pending when the client is closed; the application ranges over the group channel afterwards"})
			}
		}
		for _, p := range [][2]int64{{15, 16}, {16, 15}, {0, 254}, {254, 1}} {
			out = append(out, Inst{Pkg: "knx", Fn: "HarnessC12OutSeqWB", Args: []int64{p[0], p[1]}, Unwind: 2000, NoNative: true},
				Inst{Pkg: "knx", Fn: "HarnessC12OutSeq", Args: []int64{1, p[0], p[1]}, Unwind: 2000, NoNative: true},
				Inst{Pkg: "knx", Fn: "HarnessC12OutSeq", Args: []int64{2, p[0], p[1]}, Unwind: 2000, NoNative: true, Ctx: 2})
		}
		return out
	}
	reg(&Spec{
		ID:       "C12",
		Quick:    func(l *loaded) []Inst { return c12(false) },
		Thorough: func(l *loaded) []Inst { return c12(true) },
		Covers:   []string{"C12.out.end", "C12.outwb.end", "C12.in.surfaced", "C12.in.filtered", "C12.inbb.surfaced", "C12.inbb.filtered", "C12.e2e.end", "C12.outseq.end", "C12.outseqwb.end", "C12.close.end"},
		Bounds:   "outbound: all three commands, every source/destination/payload byte symbolic, payload lengths {0,1,2,15,16,254} (thorough 0..254), through GroupTunnel.Send (TCP-mode tunnel on the in-memory socket, and a UDP group tunnel built by the real NewGroupTunnel against a scripted gateway) and through GroupRouter.Send of a client built by the real NewGroupRouter (socket constructor redirected; the datagram bytes written are decoded again, so the first payload byte is compared in its low six bits and an empty payload as one zero byte); inbound: one message of every cEMI kind (L_Data req/con/ind with application or control unit, L_Raw x3, L_Busmon, unsupported) with all fields symbolic fed to the real serveGroupInbound goroutine, all interleavings of the three goroutines; the same filter through the sockets of clients built by NewGroupRouter / NewGroupTunnel for all 16 application codes x group/individual destination; end to end: bytes written by a group router client delivered to a group router client's socket, incl. closing of the group channel; 20 inbound events in a row with the application keeping every payload; Close with 0..2 events pending and the application reading only afterwards (NewGroupRouter / NewGroupTunnel)",
		Outside:  "payloads above 254 bytes; more than one message per inbound run (ordering is C17)",
	})

	reg(&Spec{
		ID:       "C04",
		NoNative: true,
		Quick: func(l *loaded) []Inst {
			var out []Inst
			for tcp := int64(0); tcp < 2; tcp++ {
				for ready := int64(0); ready < 2; ready++ {
					for fail := int64(0); fail < 2; fail++ {
						out = append(out, Inst{Pkg: "knx", Fn: "HarnessC04Step", Args: []int64{tcp, ready, fail}, Note: "one step from an arbitrary receiver state"})
					}
				}
				for late := int64(0); late < 2; late++ {
					for _, k := range []int64{1, 2, 3, 4, 5} {
						out = append(out, Inst{Pkg: "knx", Fn: "HarnessC04Stream", Args: []int64{k, tcp, late}, Note: "real process() goroutine, K requests"})
					}
				}
			}
			out = append(out, Inst{Pkg: "knx", Fn: "HarnessC09Parked", Ctx: 2, MaxSched: 20000, Note: "no accepted telegram is lost across a reconnect"})
			out = append(out, Inst{Pkg: "knx", Fn: "HarnessC17", Args: []int64{8, 3, 1}, Note: "no accepted telegram is lost when the overflow queue was used and drained before"},
				Inst{Pkg: "knx", Fn: "HarnessC17", Args: []int64{8, 3, 3}},
				Inst{Pkg: "knx", Fn: "HarnessC17", Args: []int64{0, 40, 1}, Ctx: -1, Note: "no accepted telegram is lost in a backlog of 40 (non-preemptive schedules)"},
				Inst{Pkg: "knx", Fn: "HarnessC17", Args: []int64{0, 40, 3}, Ctx: -1},
				Inst{Pkg: "knx", Fn: "HarnessC17", Args: []int64{0, 40, 4}, Ctx: -1, Note: "no accepted telegram is lost when a backlog is partly drained and then grows on"},
				Inst{Pkg: "knx", Fn: "HarnessC17BB", Args: []int64{5, 24, 4}, Ctx: -1, Note: "the same through a tunnel built by NewTunnel"},
				Inst{Pkg: "knx", Fn: "HarnessC17", Args: []int64{0, 6, 3}, Note: "no accepted telegram is lost or duplicated when a backlog is drained while further telegrams are accepted"},
				Inst{Pkg: "knx", Fn: "HarnessC17", Args: []int64{0, 7, 3}})
			return out
		},
		Thorough: func(l *loaded) []Inst {
			var out []Inst
			for tcp := int64(0); tcp < 2; tcp++ {
				for ready := int64(0); ready < 2; ready++ {
					for fail := int64(0); fail < 2; fail++ {
						out = append(out, Inst{Pkg: "knx", Fn: "HarnessC04Step", Args: []int64{tcp, ready, fail}})
					}
				}
				for late := int64(0); late < 2; late++ {
					for _, k := range []int64{1, 2, 3, 4, 5, 6, 7} {
						out = append(out, Inst{Pkg: "knx", Fn: "HarnessC04Stream", Args: []int64{k, tcp, late}})
					}
				}
			}
			out = append(out, Inst{Pkg: "knx", Fn: "HarnessC09Parked", Ctx: 3, MaxSched: 20000, Note: "no accepted telegram is lost across a reconnect"})
			for mode := int64(0); mode < 4; mode++ {
				out = append(out, Inst{Pkg: "knx", Fn: "HarnessC17", Args: []int64{8, 4, mode}, Note: "no accepted telegram is lost when the overflow queue was used and drained before"})
			}
			for _, k := range []int64{6, 7, 8} {
				out = append(out, Inst{Pkg: "knx", Fn: "HarnessC17", Args: []int64{0, k, 3}, Note: "no accepted telegram is lost or duplicated when a backlog is drained while further telegrams are accepted"})
			}
			return out
		},
		Covers:  []string{"C04.delivered", "C04.reack", "C04.tcp.delivered", "C04.stream.accepted", "C04.stream.repeated", "C04.stream.end"},
		Bounds:  "one real handleTunnelReq step from an arbitrary state: expected number, connection channel, request channel and sequence number all symbolic (all 256x256x256x256 combinations, wrap included), UDP/TCP, consumer waiting or arriving arbitrarily late, socket send failing or not, all interleavings with the parked delivery goroutine; plus the real process() goroutine of a fresh epoch fed with K<=5 (thorough 7) requests of symbolic channel/sequence, reader present from the start or arriving after the burst; bursts of 3 (thorough 4) into a tunnel whose overflow queue is in the state a long history leaves behind (empty, no spare capacity)",
		Outside: "streams longer than K requests are covered by induction on the step only (the step harness starts from every counter value; process() carries no other state between iterations); delivery order (C17); reconnects inside one run (C09)",
		Assume:  []string{"in-memory knxnet.Socket replaces the kernel"},
	})
	c03 := func(thorough bool) []Inst {
		var out []Inst
		ks := []int64{1, 2, 3, 4}
		if thorough {
			ks = []int64{1, 2, 3, 4, 5}
		}
		for _, k := range ks {
			for cfg := int64(0); cfg < 2; cfg++ {
				out = append(out, Inst{Pkg: "knx", Fn: "HarnessC03Exchange", Args: []int64{k, 0, -1, cfg}, Note: "UDP, K environment events"})
			}
		}
		out = append(out, Inst{Pkg: "knx", Fn: "HarnessC03Exchange", Args: []int64{1, 0, -1, 2}, Note: "default configuration (500 ms / 10 s): up to 20 transmissions of one request"},
			Inst{Pkg: "knx", Fn: "HarnessC03Exchange", Args: []int64{2, 0, -1, 2}})
		out = append(out, Inst{Pkg: "knx", Fn: "HarnessC03Exchange", Args: []int64{2, 1, -1, 0}, Note: "TCP"},
			Inst{Pkg: "knx", Fn: "HarnessC03Exchange", Args: []int64{2, 0, 0, 0}, Note: "first transmission fails"},
			Inst{Pkg: "knx", Fn: "HarnessC03Exchange", Args: []int64{2, 0, 1, 0}, Note: "first retransmission fails"},
			Inst{Pkg: "knx", Fn: "HarnessC03Exchange", Args: []int64{2, 1, 0, 0}, Note: "TCP, transmission fails"})
		for r := int64(0); r < 4; r++ {
			out = append(out, Inst{Pkg: "knx", Fn: "HarnessC03Relay", Args: []int64{r, 0}})
		}
		out = append(out, Inst{Pkg: "knx", Fn: "HarnessC03Relay", Args: []int64{0, 1}, Note: "ack channel already closed"})
		for c := int64(0); c < 5; c++ {
			out = append(out, Inst{Pkg: "knx", Fn: "HarnessC03Connect", Args: []int64{c}})
		}
		out = append(out, Inst{Pkg: "knx", Fn: "HarnessC03TwoSenders", Args: []int64{2, 1, 0}, Ctx: 3, NoNative: true},
			Inst{Pkg: "knx", Fn: "HarnessC03TwoSenders", Args: []int64{2, 1, 1}, Ctx: 2, NoNative: true})
		if thorough {
			out = append(out, Inst{Pkg: "knx", Fn: "HarnessC03TwoSenders", Args: []int64{3, 1, 1}, Ctx: 2, NoNative: true},
				Inst{Pkg: "knx", Fn: "HarnessC03TwoSenders", Args: []int64{2, 1, 2}, Ctx: 3, NoNative: true})
		}
		return out
	}
	reg(&Spec{
		ID:       "C03",
		NoNative: true,
		Quick:    func(l *loaded) []Inst { return c03(false) },
		Thorough: func(l *loaded) []Inst { return c03(true) },
		Covers:   []string{"C03.matched", "C03.unmatched", "C03.tcp", "C03.sendfails", "C03.relay.delivered", "C03.connect.ok", "C03.connect.fails", "C03.two.end"},
		Bounds:   "one real Send from an arbitrary state (sequence number and channel symbolic, so the 255->0 wrap is included) against an environment that K<=4 (thorough 5) times stays silent, lets a resend interval pass, offers an acknowledgement with symbolic sequence number and status, or closes the ack channel; two configurations (resend 2s/timeout 5s, 3s/7s) on the virtual clock, plus the default configuration (500 ms / 10 s: twenty transmissions) with K<=2; socket failing at the first or second transmission; TCP; handleTunnelRes offer window; requestConn outcomes; two concurrent senders against a gateway goroutine that acknowledges, loses or duplicates (context bound 2-3)",
		Outside:  "3..8 concurrent senders and 600 Sends (one exchange from every counter value stands for any number of exchanges: requestTunnel keeps no other state between calls); real-time jitter: virtual time advances only when no goroutine can move",
		Assume:   []string{"time.After/NewTicker/Stop are engine primitives on a virtual clock (timers never fire early, fire when nothing else can run)", "sync.Mutex: Unlock makes any waiter or newcomer eligible"},
	})

	c17 := func(maxK int64) []Inst {
		var out []Inst
		for client := int64(0); client < 8; client++ {
			fn := "HarnessC17" // white box: 0 pushInbound, 2 serveGroupInbound, 3/4 handleTunnelReq UDP/TCP
			if client == 1 || client >= 5 {
				fn = "HarnessC17BB" // constructor-built: 1 NewRouter, 5/6 NewTunnel UDP/TCP, 7 NewGroupTunnel
			}
			for k := int64(2); k <= maxK; k++ {
				for mode := int64(0); mode < 4; mode++ {
					in := Inst{Pkg: "knx", Fn: fn, Args: []int64{client, k, mode}}
					if fn == "HarnessC17BB" && k >= 4 {
						in.Ctx = 3 // bursts of 4 and 5 through the constructor-built clients: context bound 3
					}
					if client == 7 {
						in.Ctx = 2 // one more goroutine (group layer) in the pipeline
					}
					out = append(out, in)
				}
			}
		}
		// longer bursts with the reader resuming in the middle: a backlog of three or more is being
		// drained while further telegrams are accepted (queue storage reused too early shows only here)
		deep := []int64{6, 7}
		if maxK > 3 {
			deep = []int64{6, 7, 8}
		}
		for _, k := range deep {
			out = append(out, Inst{Pkg: "knx", Fn: "HarnessC17", Args: []int64{0, k, 3}, Note: "long burst, reader resumes in the middle"})
		}
		// long histories without preemption (context bound -1: the running goroutine continues while it
		// can): backlogs of 24..40 telegrams - thresholds of queues, rings and compaction lie here
		for _, mode := range []int64{1, 2, 3} {
			out = append(out, Inst{Pkg: "knx", Fn: "HarnessC17", Args: []int64{0, 40, mode}, Ctx: -1, Note: "backlog of 40, non-preemptive schedules"})
		}
		// the backlog is partly drained (three telegrams taken out of it) and then grows on to 36: queue
		// storage is extended while its head is not at the start
		out = append(out, Inst{Pkg: "knx", Fn: "HarnessC17", Args: []int64{0, 40, 4}, Ctx: -1, Note: "backlog partly drained, then growing on (non-preemptive schedules)"},
			Inst{Pkg: "knx", Fn: "HarnessC17BB", Args: []int64{1, 24, 4}, Ctx: -1, Note: "router: backlog partly drained, then growing on"},
			Inst{Pkg: "knx", Fn: "HarnessC17BB", Args: []int64{5, 24, 4}, Ctx: -1, Note: "tunnel built by NewTunnel: backlog partly drained, then growing on"})
		out = append(out, Inst{Pkg: "knx", Fn: "HarnessC17", Args: []int64{2, 20, 0}, Ctx: -1, Note: "group layer, 20 events, payloads kept by the application"},
			Inst{Pkg: "knx", Fn: "HarnessC17", Args: []int64{2, 20, 3}, Ctx: -1})
		out = append(out, Inst{Pkg: "knx", Fn: "HarnessC17BB", Args: []int64{1, 40, 1}, Ctx: -1, Note: "router, backlog of 40, non-preemptive schedules"},
			Inst{Pkg: "knx", Fn: "HarnessC17BB", Args: []int64{1, 24, 2}, Ctx: -1},
			Inst{Pkg: "knx", Fn: "HarnessC17BB", Args: []int64{5, 24, 2}, Ctx: -1})
		if maxK > 3 {
			out = append(out, Inst{Pkg: "knx", Fn: "HarnessC17BB", Args: []int64{1, 40, 3}, Ctx: -1},
				Inst{Pkg: "knx", Fn: "HarnessC17BB", Args: []int64{5, 40, 1}, Ctx: -1},
				Inst{Pkg: "knx", Fn: "HarnessC17BB", Args: []int64{5, 40, 3}, Ctx: -1})
		}
		for _, cl := range []int64{1, 5} {
			for _, mode := range []int64{1, 3} {
				out = append(out, Inst{Pkg: "knx", Fn: "HarnessC17BB", Args: []int64{cl, 3, mode, 1}, Ctx: 2, Note: "after a warm-up telegram that was parked and taken (queue used once)"})
			}
		}
		for mode := int64(0); mode < 4; mode++ {
			out = append(out, Inst{Pkg: "knx", Fn: "HarnessC17", Args: []int64{8, 3, mode}, Note: "tunnel whose overflow queue was used and drained before (empty, no spare capacity)"})
		}
		out = append(out, Inst{Pkg: "knx", Fn: "HarnessC17BB", Args: []int64{1, 6, 3}, Ctx: 2, Note: "long burst, router"},
			Inst{Pkg: "knx", Fn: "HarnessC17BB", Args: []int64{5, 6, 3}, Ctx: 2, Note: "long burst, tunnel built by NewTunnel"})
		if maxK > 3 {
			out = append(out, Inst{Pkg: "knx", Fn: "HarnessC17", Args: []int64{0, 7, 1}, Note: "long burst, reader absent"},
				Inst{Pkg: "knx", Fn: "HarnessC17BB", Args: []int64{1, 7, 3}, Ctx: 2})
		}
		return out
	}
	reg(&Spec{
		ID:       "C17",
		NoNative: true,
		Quick:    func(l *loaded) []Inst { return c17(3) },
		Thorough: func(l *loaded) []Inst { return c17(5) },
		Covers:   []string{"C17.end"},
		Bounds:   "tunnel client (pushInbound directly, through handleTunnelReq in UDP and TCP mode, and a client built by the real NewTunnel fed through its socket in UDP and TCP mode), router client (built by the real NewRouter, fed through its socket) and the group layer (serveGroupInbound on a plain channel, and a group tunnel built by NewGroupTunnel); bursts of 2..3 (thorough ..5; constructor-built clients from 4 on with context bound 3, the NewGroupTunnel pipeline always with context bound 2) accepted telegrams for every client and consumer behaviour, plus bursts of 6 and 7 (thorough 8) with the reader resuming in the middle for the tunnel (pushInbound; NewTunnel-built, context bound 2) and the router (context bound 2); backlogs of 24 and 40 telegrams under non-preemptive schedules (tunnel white box and NewTunnel-built, router); the tunnel also from the queue state a long history leaves behind (drained by re-slicing: empty, no spare capacity); consumer always waiting, absent for the whole burst, taking one telegram and then stalling, resuming in the middle of the burst, or (backlog of 40) taking three telegrams out of the backlog after a quarter of the burst and stalling again; every interleaving of the server side, the parked delivery goroutines and the consumer",
		Outside:  "bursts longer than 8 under full interleaving and longer than 40 without preemption; the runtime's FIFO order among senders that are already blocked is not modelled (any blocked sender may be served), which only adds schedules",
		Assume:   []string{"the pinned tree reordered overflowed telegrams (per-telegram goroutines); repaired by the fix: commit recorded in known_findings.json, so all consumer behaviours are enforced now"},
	})

	c14 := func(thorough bool) []Inst {
		var out []Inst
		rs := []int64{1, 2, 3, 4, 5}
		if thorough {
			rs = []int64{1, 2, 3, 4, 5, 6, 7}
		}
		for _, R := range rs {
			for r := int64(0); r <= R; r++ {
				for mode := int64(0); mode <= 3; mode++ {
					if mode == 3 && r == 0 {
						continue
					}
					out = append(out, Inst{Pkg: "knx", Fn: "HarnessC14Step", Args: []int64{R, r, mode}, Note: "one step from an arbitrary retained history"})
				}
			}
		}
		for r := int64(0); r <= 3; r++ {
			out = append(out, Inst{Pkg: "knx", Fn: "HarnessC14Step", Args: []int64{32, r, 0}}, Inst{Pkg: "knx", Fn: "HarnessC14Step", Args: []int64{32, r, 2}})
		}
		ctx := 3
		if thorough {
			ctx = 4
		}
		out = append(out, Inst{Pkg: "knx", Fn: "HarnessC14Big", Args: []int64{32, 80}, Ctx: -1, RandChoice: true, Unwind: 4000, Note: "full default-sized history (32) of 80-byte telegrams, all reported lost"},
			Inst{Pkg: "knx", Fn: "HarnessC14Big", Args: []int64{12, 254}, Ctx: -1, RandChoice: true, Unwind: 4000},
			Inst{Pkg: "knx", Fn: "HarnessC14Big", Args: []int64{32, 8, 300}, Ctx: -2, RandChoice: true, Unwind: 4000, MaxSched: 100000, Note: "300 sends on one client, then 65535 telegrams reported lost: exactly the last 32 are repeated (one schedule)"})
		out = append(out, Inst{Pkg: "knx", Fn: "HarnessC14Group", Args: []int64{3, 5}, Ctx: 2, RandChoice: true, Unwind: 2000, Note: "two group events through NewGroupRouter, both reported lost"},
			Inst{Pkg: "knx", Fn: "HarnessC14Group", Args: []int64{16, 2}, Ctx: 2, RandChoice: true, Unwind: 2000})
		for sc := int64(0); sc <= 5; sc++ {
			out = append(out, Inst{Pkg: "knx", Fn: "HarnessC14Run", Args: []int64{sc}, Ctx: ctx, RandChoice: true, MaxSched: 20000, Note: "real serve goroutine"})
		}
		return out
	}
	reg(&Spec{
		ID:       "C14",
		NoNative: true,
		Quick:    func(l *loaded) []Inst { return c14(false) },
		Thorough: func(l *loaded) []Inst { return c14(true) },
		Covers:   []string{"C14.step.sent", "C14.step.sendfail", "C14.lost.resent", "C14.lost.partial", "C14.run.end", "C14.big.end", "C14.group.end"},
		Bounds:   "one real Send / resendLost step from every retained history of length r <= R for R in 1..5 (thorough ..7) and R = 32 with r <= 3 (messages are distinct objects), lost count fully symbolic (0..65535), transmission failing at a nondeterministic position; a full history of 32 telegrams of 80 bytes (and 12 of 254 bytes) reported lost and compared byte for byte; 300 sends followed by a lost indication claiming 65535 telegrams (single schedule); two group events (payload symbolic) through NewGroupRouter reported lost and compared byte for byte; bounded runs of the real serve goroutine with senders, lost and busy indications, slow/absent reader and Close, a lost indication before, after and inside a busy period, lost indications that resolve to nothing (empty history, count 0) followed by traffic and one that counts, context bound 3 (thorough 4)",
		Outside:  "retain counts 4..31 and 33..64; histories longer than 300 sends (one 300-send history on a client built by NewRouter is run under a single schedule; beyond that, induction over the one-step harness: Send and resendLost keep no state but the list), a lost indication arriving while an earlier resend is still in progress (excluded by the property)",
		Assume:   []string{"container/list is executed from its real SSA", "in the bounded runs math/rand.Float64 is one of {0, 0.5, 0.9999999}"},
	})
	c13 := func(thorough bool) []Inst {
		out := []Inst{{Pkg: "knx", Fn: "HarnessC13Cap", Note: "symbolic wait time, control and random part"},
			{Pkg: "knxnet", Fn: "HarnessC02Indications", ForceNative: true, Note: "wire form of routing-busy / routing-lost indications (specification service numbers, all 16-bit wait times and counts)"}}
		add := func(ns, per, nb, pause, wait int64, ctx int) {
			out = append(out, Inst{Pkg: "knx", Fn: "HarnessC13", Args: []int64{ns, per, nb, pause, wait}, Ctx: ctx, RandChoice: true, MaxSched: 20000})
		}
		add(2, 2, 1, 5, 30, 2)
		add(2, 1, 1, 20, 500, 2)
		add(2, 1, 2, 5, 30, 2)
		add(1, 2, 1, 0, 10, 3)
		add(2, 2, 0, 20, 0, 3)
		out = append(out, Inst{Pkg: "knx", Fn: "HarnessC13", Args: []int64{2, 1, 0, 20, 0, 2}, Ctx: 2, RandChoice: true, MaxSched: 20000, Note: "lost indication: repetitions are paced too"},
			Inst{Pkg: "knx", Fn: "HarnessC13", Args: []int64{1, 2, 1, 5, 30, 3}, Ctx: 2, RandChoice: true, MaxSched: 20000})
		// the per-goroutine quota after a busy indication, under FIFO hand-off of the send lock
		quota := func(ns, per, nb, pause, wait int64, ctx int) {
			out = append(out, Inst{Pkg: "knx", Fn: "HarnessC13Quota", Args: []int64{ns, per, nb, pause, wait}, Ctx: ctx, MaxSched: 20000,
				Note: "quota per goroutine already inside Send; sync.Mutex hands over FIFO (starvation mode); wait -1 = symbolic"})
		}
		out = append(out, Inst{Pkg: "knx", Fn: "HarnessC13QuotaLost", Args: []int64{4, 4, 5, 30}, Ctx: 3, MaxSched: 20000, Note: "the goroutine repeating lost telegrams is a sender like any other: one further repetition at most once a busy indication is taken in"},
			Inst{Pkg: "knx", Fn: "HarnessC13QuotaLost", Args: []int64{3, 65535, 0, 60}, Ctx: 3, MaxSched: 20000})
		quota(2, 2, 1, 5, -1, 2)
		quota(2, 1, 2, 20, -1, 2)
		quota(2, 2, 1, 5, 30, 3)
		if thorough {
			quota(3, 2, 2, 5, 30, 2)
			quota(2, 2, 2, 0, 60, 3)
			quota(3, 1, 1, 5, -1, 2)
			add(3, 2, 2, 5, 30, 2)
			add(3, 1, 2, 20, 100, 3)
			add(2, 2, 2, 0, 60, 3)
		}
		return out
	}
	reg(&Spec{
		ID:       "C13",
		NoNative: true,
		Solver:   "cvc5",
		Quick:    func(l *loaded) []Inst { return c13(false) },
		Thorough: func(l *loaded) []Inst { return c13(true) },
		Covers:   []string{"C13.end", "C13.cap.end", "C02.ind.end", "C13.quota.end", "C13.quota.transmission_after_busy", "C13.quotalost.end", "C13.quotalost.repetition_after_busy"},
		Bounds:   "real serve goroutine and 1..2 (thorough 3) sender goroutines x 1..2 messages, 0..2 busy indications handed in at every point of the interleaving (context bound 2..3), pause in {0,5,20} ms, wait in {0,10,30,60,100,500} ms on the virtual clock (lower-bound semantics: goroutines take no time, timers fire exactly at their deadline); the 50 ms cap and the resume obligation with a fully symbolic 16-bit wait time, control word and random part; the per-goroutine quota (every transmission between the instant the indication is taken in and the instant the server goroutine owns the send lock belongs to a Send call entered before, at most one per goroutine; silence for min(wait, 50 ms) afterwards) with 2 (thorough 3) senders x 1..2 messages, 1..2 indications, wait time concrete or fully symbolic (16 bits), the order of arrival at the lock being part of the explored interleaving; the same quota for the goroutine that repeats 3..4 lost telegrams when a busy indication meets the repetitions at every point of the interleaving",
		Outside:  "8 senders and bursts of 200; the clause 'at most one further transmission per goroutine already inside Send' is decided under FIFO hand-off of sync.Mutex only (what the runtime guarantees once a waiter has waited 1 ms, starvation mode); with barging allowed (normal mode, first millisecond) a goroutine that re-enters Send can overtake the waiting server goroutine - HarnessC13Quota with a sixth argument shows that counterexample - so the clause cannot hold for any implementation on a plain mutex and is not claimed there; all other obligations use the weakest mutex contract (any waiter or newcomer may win)",
		Assume:   []string{"sync.Mutex: any waiter or newcomer may win an unlocked mutex (all obligations but the quota)", "HarnessC13Quota / HarnessC13QuotaLost only: a free sync.Mutex goes to the goroutine that arrived at Lock first (FIFO hand-off, starvation mode)", "time.AfterFunc/Sleep are engine primitives on the virtual clock", "math/rand.Intn/Int63n/Int31n: an arbitrary value in [0, n)"},
	})

	c09 := func(thorough bool) []Inst {
		var out []Inst
		ks := []int64{1, 2, 3, 4, 5}
		if thorough {
			ks = []int64{1, 2, 3, 4, 5, 6}
		}
		for _, k := range ks {
			out = append(out, Inst{Pkg: "knx", Fn: "HarnessC09ConnState", Args: []int64{k}})
		}
		for m := int64(0); m <= 5; m++ {
			out = append(out, Inst{Pkg: "knx", Fn: "HarnessC09Dispatch", Args: []int64{m}})
		}
		for r := int64(0); r <= 2; r++ {
			out = append(out, Inst{Pkg: "knx", Fn: "HarnessC09Relay", Args: []int64{r}, Note: "offer window of a connection-state response"})
		}
		ctx := 2
		if thorough {
			ctx = 4
		}
		out = append(out, Inst{Pkg: "knx", Fn: "HarnessC09Parked", Ctx: ctx, MaxSched: 20000, Note: "telegrams parked while the reader is absent survive a reconnect"},
			Inst{Pkg: "knx", Fn: "HarnessC09SendAcross", Args: []int64{0}, Ctx: 2, MaxSched: 20000, Note: "a Send waiting behind a pending one while the gateway reconnects"},
			Inst{Pkg: "knx", Fn: "HarnessC09Traffic", Args: []int64{3}, Ctx: ctx, MaxSched: 20000, Note: "heartbeat due although inbound frames keep arriving"},
			Inst{Pkg: "knx", Fn: "HarnessC09Traffic", Args: []int64{7}, Ctx: ctx, MaxSched: 20000})
		if thorough {
			out = append(out, Inst{Pkg: "knx", Fn: "HarnessC09SendAcross", Args: []int64{1}, Ctx: 2, MaxSched: 30000})
		}
		for _, hb := range []int64{3, 7} {
			out = append(out, Inst{Pkg: "knx", Fn: "HarnessC09Epoch", Args: []int64{hb, 0, 0}, Ctx: ctx, MaxSched: 20000})
			for hm := int64(1); hm <= 4; hm++ {
				for rc := int64(0); rc <= 3; rc++ {
					out = append(out, Inst{Pkg: "knx", Fn: "HarnessC09Epoch", Args: []int64{hb, hm, rc}, Ctx: ctx, MaxSched: 20000})
				}
			}
			out = append(out, Inst{Pkg: "knx", Fn: "HarnessC09Epoch", Args: []int64{hb, 5, 0}, Ctx: ctx, MaxSched: 20000, Note: "first heartbeat answered twice, then silence: the stale duplicate must not satisfy the next heartbeat"})
		}
		return out
	}
	reg(&Spec{
		ID:       "C09",
		NoNative: true,
		Quick:    func(l *loaded) []Inst { return c09(false) },
		Thorough: func(l *loaded) []Inst { return c09(true) },
		Covers:   []string{"C09.cs.answered", "C09.cs.failed", "C09.dispatch.disconnect_request", "C09.dispatch.disconnect_response", "C09.dispatch.ignored", "C09.epoch.healthy", "C09.epoch.failed", "C09.epoch.alive", "C09.epoch.terminated", "C09.parked.end", "C09.across.end", "C09.traffic.end", "C09.relay.delivered"},
		Bounds:   "one real connection-state exchange from an arbitrary channel against K<=5 (thorough 6) environment events (silence, resend interval passes, status with all 256 values symbolic, channel closed); the real process() dispatch on one frame of each kind with a symbolic channel; bounded runs of the real serve() goroutine against a gateway goroutine over two epochs: heartbeat interval shorter (3.3 s) and longer (7.3 s) than the 5.1 s response timeout, heartbeat answered / unanswered / error status (symbolic) / foreign channel / disconnect request / first one answered twice and none afterwards, reconnect accepted (new channel symbolic) / busy then accepted / refused (status symbolic) / unanswered; initial channel and send counter symbolic; telegrams parked for an absent reader across a reconnect; a Send waiting behind a pending Send while the gateway drops and re-establishes the connection (channel/counter pair must be consistent); heartbeats under steady inbound traffic; context bound 2 (thorough 4)",
		Outside:  "runs of 3..5 epochs (an epoch change is covered as such; serve() keeps no state across epochs but the Tunnel fields checked here); interval values other than the two configurations; real-time jitter",
		Assume:   []string{"timers on the virtual clock; interval values chosen so that few timers expire at the same instant"},
	})
	c10 := func(thorough bool) []Inst {
		var out []Inst
		ctx := 3
		if thorough {
			ctx = 5
		}
		for sc := int64(0); sc <= 6; sc++ {
			for _, closers := range []int64{1, 2} {
				for rd := int64(0); rd <= 1; rd++ {
					if !thorough && closers == 2 && rd == 0 && sc != 4 {
						continue
					}
					out = append(out, Inst{Pkg: "knx", Fn: "HarnessC10", Args: []int64{sc, closers, rd}, Ctx: ctx, Race: true, MaxSched: 30000})
				}
			}
		}
		// engine self-test: schedule-independent concurrent programs, every interleaving, replayed natively
		for prog := int64(0); prog <= 5; prog++ {
			out = append(out, Inst{Pkg: "knx", Fn: "HarnessSelfTestConc", Args: []int64{prog}, Ctx: 2, ForceNative: true, Note: "validation of the engine's channel/select/mutex/once/recover model against the Go runtime"})
		}
		out = append(out, Inst{Pkg: "knx", Fn: "HarnessSelfTestClock", NoNative: true, Note: "engine model of time.Now/Since/Sub/Add on the virtual clock"},
			Inst{Pkg: "knx", Fn: "HarnessSelfTestPool", NoNative: true, Note: "engine model of sync.Pool (New on empty, last put handed out first)"},
			Inst{Pkg: "knx", Fn: "HarnessSelfTestFormat", ForceNative: true, Note: "engine model of fmt: Error/String of operands are called for string verbs only, validated against the Go runtime"},
			Inst{Pkg: "knx", Fn: "HarnessSelfTestErrors", ForceNative: true, Note: "engine model of fmt.Errorf(%w) / errors.Is / errors.Unwrap, validated against the Go runtime"})
		for late := int64(0); late < 2; late++ {
			for end := int64(0); end < 3; end++ {
				out = append(out, Inst{Pkg: "knx", Fn: "HarnessC10Relay", Args: []int64{late, end}, Ctx: ctx + 1, Race: true, Note: "late response while the server goroutine ends"})
			}
		}
		return out
	}
	reg(&Spec{
		ID:       "C10",
		NoNative: true,
		Quick:    func(l *loaded) []Inst { return c10(false) },
		Thorough: func(l *loaded) []Inst { return c10(true) },
		Covers:   []string{"C10.end", "C10.relay.end", "self.end", "self.clock.end", "self.pool.end", "self.errors.end", "self.format.end"},
		Bounds:   "Close injected into an idle tunnel, a pending Send, a pending heartbeat exchange, a pending reconnect, parked inbound deliveries, a tunnel whose socket already died and an idle tunnel whose socket refuses exactly the disconnect request (transient error, inbound side still open); 1 or 2 concurrent closers; with and without a reader; a late connection-state response / tunnelling acknowledgement followed by the end of the server goroutine (disconnect response, socket death, Close) inside the relay's offer window; real serve/process/heartbeat/relay goroutines (<= 9 threads), context bound 3 (thorough 5), scheduler step bound 30000; happens-before race check (vector clocks over go, channel, mutex, WaitGroup, Once and timer edges) on every field of the Tunnel object along all explored schedules",
		Outside:  "3..4 concurrent closers; memory-model effects below happens-before; the receiver goroutine of the real TunnelSocket (C16)",
		Assume:   []string{"in-memory socket whose Close is counted", "sync.Once/WaitGroup/Mutex are engine primitives"},
	})

	c16 := func(thorough bool) []Inst {
		var out []Inst
		maxF, cuts := int64(2), int64(2)
		if thorough {
			maxF, cuts = 3, 3
		}
		for f := int64(1); f <= maxF; f++ {
			for k0 := int64(0); k0 < 5; k0++ {
				c := cuts
				if f == 3 {
					c = 2
				}
				out = append(out, Inst{Pkg: "knxnet", Fn: "HarnessC16TCP", Args: []int64{f, k0, c, 0}, Note: "every placement of up to c cuts"},
					Inst{Pkg: "knxnet", Fn: "HarnessC16TCP", Args: []int64{f, k0, 0, 1}, Note: "1-byte dribble"},
					Inst{Pkg: "knxnet", Fn: "HarnessC16TCP", Args: []int64{f, k0, 0, 0}, Note: "fully coalesced"})
				if f <= 2 {
					out = append(out, Inst{Pkg: "knxnet", Fn: "HarnessC16TCP", Args: []int64{f, k0, 1, 0, 1}, Note: "the peer closes inside the last frame (every position, header or body)"})
				}
			}
		}
		out = append(out, Inst{Pkg: "knxnet", Fn: "HarnessC16TCPBad", Args: []int64{0, 1}}, Inst{Pkg: "knxnet", Fn: "HarnessC16TCPBad", Args: []int64{1, 1}},
			Inst{Pkg: "knxnet", Fn: "HarnessC16TCPBad", Args: []int64{0, 0}}, Inst{Pkg: "knxnet", Fn: "HarnessC16TCPBad", Args: []int64{1, 0}})
		for k := int64(1); k <= maxF; k++ {
			for k0 := int64(0); k0 < 5; k0++ {
				out = append(out, Inst{Pkg: "knxnet", Fn: "HarnessC16UDP", Args: []int64{k, k0, 0}})
			}
		}
		out = append(out, Inst{Pkg: "knxnet", Fn: "HarnessC16UDP", Args: []int64{2, 4, 0, 5}, Note: "two bus-monitor datagrams: decoded payloads must not alias the reused receive buffer"},
			Inst{Pkg: "knxnet", Fn: "HarnessC16UDP", Args: []int64{2, 3, 0, 5}, Note: "two L_Data datagrams"})
		out = append(out, Inst{Pkg: "knxnet", Fn: "HarnessC16TCPBig", Args: []int64{4200}, Unwind: 20000, Note: "a frame larger than bufio's 4096-byte buffer"})
		for _, L := range []int64{-1, 1, 6, 8, 10, 12} {
			out = append(out, Inst{Pkg: "knxnet", Fn: "HarnessC16UDP", Args: []int64{1, 3, L}, Note: "arbitrary (L = -1: empty) datagram first, buffer reused"})
		}
		for udp := int64(0); udp < 2; udp++ {
			for pend := int64(0); pend <= 2; pend++ {
				for late := int64(0); late < 2; late++ {
					out = append(out, Inst{Pkg: "knxnet", Fn: "HarnessC16Close", Args: []int64{udp, pend, late}, Note: "Close ends the receiver"})
				}
			}
		}
		out = append(out, Inst{Pkg: "knxnet", Fn: "HarnessC16Origin", Note: "UDP receiver bound to one peer: sender host and port symbolic"})
		out = append(out, Inst{Pkg: "knxnet", Fn: "HarnessC16ConcurrentSend", Args: []int64{2}, Note: "two concurrent senders, every interleaving around Write"})
		if thorough {
			out = append(out, Inst{Pkg: "knxnet", Fn: "HarnessC16ConcurrentSend", Args: []int64{3}, Ctx: 3})
		}
		for tcp := int64(0); tcp < 2; tcp++ {
			for loc := int64(0); loc < 2; loc++ {
				for nw := int64(0); nw < 3; nw++ {
					out = append(out, Inst{Pkg: "knx", Fn: "HarnessC16HostInfo", Args: []int64{tcp, loc, nw}})
				}
				out = append(out, Inst{Pkg: "knx", Fn: "HarnessC16HostInfoBB", Args: []int64{tcp, loc}, NoNative: true, Note: "connect request written by the real NewTunnel"})
			}
		}
		for cs := int64(0); cs <= 15; cs++ {
			out = append(out, Inst{Pkg: "knxnet", Fn: "HarnessC16HostInfoParse", Args: []int64{cs}, ForceNative: true, Note: "real HostInfoFromAddress on the text of a local endpoint (cases 11..15: 1..5 symbolic port digits)"})
		}
		// black box: the real DialTunnelUDP / DialTunnelTCP on stubbed net.Resolve*/Dial*
		for first := int64(0); first <= 3; first++ {
			out = append(out, Inst{Pkg: "knxnet", Fn: "HarnessC16DialUDP", Args: []int64{1, 3, first}, NoNative: true, Note: "real DialTunnelUDP: first datagram none / empty / foreign sender / arbitrary"},
				Inst{Pkg: "knxnet", Fn: "HarnessC16DialUDP", Args: []int64{2, first, first}, NoNative: true})
		}
		for k0 := int64(0); k0 < 5; k0++ {
			out = append(out, Inst{Pkg: "knxnet", Fn: "HarnessC16DialTCP", Args: []int64{1, k0, cuts, 0}, NoNative: true, Note: "real DialTunnelTCP: every placement of the cut points"},
				Inst{Pkg: "knxnet", Fn: "HarnessC16DialTCP", Args: []int64{1, k0, 0, 1}, NoNative: true, Note: "1-byte dribble"})
		}
		out = append(out, Inst{Pkg: "knxnet", Fn: "HarnessC16DialTCP", Args: []int64{2, 3, 1, 0}, NoNative: true})
		return out
	}
	hang := func(in []Inst) []Inst {
		for i := range in {
			if strings.HasPrefix(in[i].Fn, "HarnessC16") {
				in[i].UnwindIsHang = true
			}
		}
		return in
	}
	reg(&Spec{
		ID:       "C16",
		NoNative: true,
		Quick:    func(l *loaded) []Inst { return hang(c16(false)) },
		Thorough: func(l *loaded) []Inst { return hang(c16(true)) },
		Covers:   []string{"C16.tcp.end", "C16.tcp.truncated", "C16.tcpbad.end", "C16.udp.end", "C16.hostinfo.nat", "C16.hostinfo.local", "C16.hostinfo.bb.nat", "C16.hostinfo.bb.local", "C16.dial.udp.end", "C16.dial.tcp.end", "C16.hostinfo.parse.ok", "C16.hostinfo.parse.rejected", "C16.hostinfo.parse.anyport", "C16.send.concurrent.end", "C16.close.end", "C16.origin.accepted", "C16.origin.dropped", "C16.tcpbig.end"},
		Bounds:   "real serveTCPSocket (with the real bufio.Reader and io.ReadFull) on streams of 1..2 (thorough 3) concatenated frames of five kinds (tunnelling ack, connection-state response, disconnect request, tunnelling requests carrying L_Data and L_Busmon) with symbolic field values, one 4.2 KB bus-monitor frame (longer than bufio's buffer), the Read stub returning: every placement of up to 2 (3) cut points, 1-byte dribble, or everything at once, then EOF; the peer closing inside the last frame at every byte position (header or body); a frame with arbitrary body followed by a good one; a header announcing total length 0..5 (symbolic); real serveUDPSocket on 1..2 (3) datagrams, optionally preceded by an arbitrary symbolic datagram of 1..12 bytes into the reused 1024-byte buffer; Tunnel.hostInfo through requestConn for UDP/TCP/other sockets with and without SendLocalAddress; 2 (thorough 3) goroutines sending different frames through one TunnelSocket whose Write is a scheduling point; the same receive/send/close clauses through the real constructors DialTunnelUDP / DialTunnelTCP running on stubbed net.Resolve*/Dial* (peer 192.0.2.1:3671): 1..2 datagrams preceded by nothing / an empty datagram / a datagram from a foreign sender (host and port symbolic) / 8 arbitrary bytes; TCP streams of 1..2 frames with cut points or dribble; one Send (exactly one write of Size bytes) and Close; the real HostInfoFromAddress on the text of a local endpoint: every port 0..65535 written with 1..5 symbolic decimal digits, both networks, IPv6 / malformed / unknown-network texts rejected (net.ParseIP evaluated by the host on the concrete address text)",
		Outside:  "50-frame streams (the receiver keeps no state between frames other than bufio's buffer); more than 3 cut points at once; more than 2 (thorough 3) concurrent senders; an application that never reads again after Close (a receiver blocked on an undelivered frame ends only when that frame is read; decided here: Close with 0..2 decoded frames pending and a reader that drains); kernel sockets, net.Dial*/Listen* themselves, host parts other than the concrete ones listed (HostInfoFromAddress is redirected to an environment function in the client harnesses and executed itself in HarnessC16HostInfoParse)",
		Assume:   []string{"(*net.TCPConn).Read / (*net.UDPConn).ReadFromUDP are engine stubs obeying the io.Reader contract with nondeterministic segment sizes"},
	})
	c20 := func(maxK int64) []Inst {
		var out []Inst
		for k := int64(0); k <= maxK; k++ {
			out = append(out, Inst{Pkg: "knx", Fn: "HarnessC20Describe", Args: []int64{k}}, Inst{Pkg: "knx", Fn: "HarnessC20Discover", Args: []int64{k}})
		}
		out = append(out, Inst{Pkg: "knx", Fn: "HarnessC20DescribeMany", Args: []int64{40}, Ctx: -1, Note: "40 unrelated frames before the description response"})
		out = append(out, Inst{Pkg: "knxnet", Fn: "HarnessC16Origin", Note: "only datagrams from the queried address and port surface"})
		// "malformed frames first": the UDP receiver behind both calls keeps delivering after a bad datagram
		for _, L := range []int64{-1, 6, 8, 10} {
			out = append(out, Inst{Pkg: "knxnet", Fn: "HarnessC16UDP", Args: []int64{1, 3, L}, Note: "UDP receiver: arbitrary (L = -1: empty) datagram first"})
		}
		return out
	}
	reg(&Spec{
		ID:       "C20",
		NoNative: true,
		Quick:    func(l *loaded) []Inst { return c20(5) },
		Thorough: func(l *loaded) []Inst { return c20(7) },
		Covers:   []string{"C20.describe.answered", "C20.describe.timeout", "C20.discover.end", "C20.many.end"},
		Bounds:   "real DescribeTunnel / DiscoverOnInterface (with the real TunnelSocket/RouterSocket methods) against an environment that offers 0..5 (thorough 7) frames, each a description response, a search response or another frame, each after a delay of 0, 2 or 4 s on the virtual clock (timeout 5 s), every interleaving of offer and timeout; 40 unrelated frames before the description response; one request written, carrying the host info of the socket's local address; socket closed exactly once",
		Outside:  "real sockets (Dial/Listen are redirected to environment functions), scheduling slack (virtual time advances only when no goroutine can move)",
	})

	c05 := func(thorough bool) []Inst {
		out := []Inst{
			{Pkg: "knx", Fn: "HarnessC05Out", Args: []int64{2, 0}, Ctx: 2, MaxSched: 20000},
			{Pkg: "knx", Fn: "HarnessC05Out", Args: []int64{2, 1}, Ctx: 2, MaxSched: 20000},
			{Pkg: "knx", Fn: "HarnessC05Out", Args: []int64{2, 2}, Ctx: 2, MaxSched: 20000},
			{Pkg: "knx", Fn: "HarnessC05Out", Args: []int64{2, 3}, Ctx: 2, MaxSched: 20000, Note: "three lost acknowledgements let a Send time out"},
			{Pkg: "knx", Fn: "HarnessC05In", Args: []int64{2, 0}, Ctx: 2, MaxSched: 20000},
			{Pkg: "knx", Fn: "HarnessC05In", Args: []int64{2, 1}, Ctx: 2, MaxSched: 20000},
			{Pkg: "knx", Fn: "HarnessC05In", Args: []int64{2, 2}, Ctx: 2, MaxSched: 20000},
		}
		// inductive core: one real client step from arbitrary counters (the harnesses of C03/C04)
		for tcp := int64(0); tcp < 1; tcp++ {
			for ready := int64(0); ready < 2; ready++ {
				out = append(out, Inst{Pkg: "knx", Fn: "HarnessC04Step", Args: []int64{tcp, ready, 0}, Note: "inductive core: receiver step from every counter value"},
					Inst{Pkg: "knx", Fn: "HarnessC04Step", Args: []int64{tcp, ready, 1}, Note: "the same with the acknowledgement's transmission failing (an unacknowledged telegram is repeated by the gateway and must not be accepted twice)"})
			}
		}
		out = append(out, Inst{Pkg: "knx", Fn: "HarnessC03Exchange", Args: []int64{2, 0, -1, 0}, Note: "inductive core: sender exchange from every counter value"})
		out = append(out, Inst{Pkg: "knx", Fn: "HarnessC03TwoSenders", Args: []int64{2, 1, 0, 5}, Ctx: 3, Note: "two concurrent senders, fault-free gateway: every successful Send forwarded exactly once"},
			Inst{Pkg: "knx", Fn: "HarnessC03TwoSenders", Args: []int64{2, 2, 0, 5}, Ctx: 2})
		if thorough {
			out = append(out,
				Inst{Pkg: "knx", Fn: "HarnessC05Out", Args: []int64{3, 2}, Ctx: 2, MaxSched: 30000},
				Inst{Pkg: "knx", Fn: "HarnessC05Out", Args: []int64{3, 3}, Ctx: 2, MaxSched: 30000},
				Inst{Pkg: "knx", Fn: "HarnessC05In", Args: []int64{3, 2}, Ctx: 3, MaxSched: 30000},
				Inst{Pkg: "knx", Fn: "HarnessC05In", Args: []int64{3, 3}, Ctx: 2, MaxSched: 30000})
		}
		return out
	}
	reg(&Spec{
		ID:       "C05",
		NoNative: true,
		Quick:    func(l *loaded) []Inst { return c05(false) },
		Thorough: func(l *loaded) []Inst { return c05(true) },
		Covers:   []string{"C05.out.end", "C05.in.end", "C05.out.after_timeout", "C04.delivered", "C03.matched", "C05.two.end"},
		Bounds:   "composition of the real client with a rule-following gateway and a lossy/duplicating/delaying network (harness goroutines): outbound 2 (thorough 3) telegrams from a symbolic start number (wrap included) with up to 3 faults (request lost / duplicated with a delayed copy / overtaken, acknowledgement lost / duplicated), real Send, real handleTunnelRes relay goroutines, virtual-time resend and timeout; inbound 2 (3) telegrams (of different cEMI kinds) with up to 2 (3) faults through the real process() goroutine; two concurrent senders (1..2 telegrams each) against a fault-free gateway; context bound 2..3",
		Outside:  "6 telegrams per direction, more than 3 faults, more than one delayed copy in flight; the one-step harnesses of C03/C04 (included here as the inductive core, from every counter value) carry the induction over long histories and the 255->0 wrap of the receive counter",
		Assume:   []string{"gateway and network are harness code written from the tunnelling rules in the property"},
	})
}

func dptWireLen(m int64) int64 {
	switch m {
	case 1:
		return 1
	case 5, 6, 17, 18, 20:
		return 2
	case 7, 8, 9:
		return 3
	case 10, 11, 232:
		return 4
	case 12, 13, 14:
		return 5
	case 242, 251:
		return 7
	case 16:
		return 15
	}
	return 2
}
