package main

import (
	"fmt"
	"os"
	"strings"

	"kv/exec"
	"kv/smt"
)

// dptNames executes the registry initialiser of the current source in the
// engine and returns the registered (main, sub) numbers.
func dptNames(l *loaded) [][2]int64 {
	fn, err := l.harness("dpt", "HarnessDptList")
	if err != nil {
		fmt.Fprintln(os.Stderr, err)
		return nil
	}
	s, err := smt.Start("z3", 10000)
	if err != nil {
		return nil
	}
	defer s.Close()
	e := exec.New(l.World, s, exec.Config{Unwind: 5000})
	out := e.RunPath(fn, nil, nil)
	var res [][2]int64
	for _, o := range out.Obs {
		if strings.HasPrefix(o, "name=") {
			var m, sub int64
			if _, err := fmt.Sscanf(o[5:], "%d.%d", &m, &sub); err == nil {
				res = append(res, [2]int64{m, sub})
			}
		}
	}
	if len(res) == 0 {
		fmt.Fprintln(os.Stderr, "dptNames: registry listing failed:", out.Kind, out.Detail, out.Site)
	}
	return res
}
