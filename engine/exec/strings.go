package exec

import (
	"go/token"

	"kv/term"
)

// validRune maps a rune to what string([]rune{r}) round-trips to: surrogates
// and values beyond U+10FFFF become U+FFFD.
func (e *Exec) validRune(r *term.T) *term.T {
	c := e.C
	if r.Sort.W != 32 {
		panic("rune width")
	}
	_, hi := r.Range()
	if hi < 0xD800 {
		return r
	}
	bad := c.BOr(
		c.BAnd(c.Cmp(term.OpULe, c.BVConst(32, 0xD800), r), c.Cmp(term.OpULe, r, c.BVConst(32, 0xDFFF))),
		c.Cmp(term.OpULt, c.BVConst(32, 0x10FFFF), r))
	return c.Ite(bad, c.BVConst(32, 0xFFFD), r)
}

// allASCII: every rune is known (by range) to be below 0x80.
func (e *Exec) allASCII(s *Str) bool {
	for _, r := range s.R {
		if _, hi := r.Range(); hi >= 0x80 {
			return false
		}
	}
	return true
}

// strBytes returns the byte representation (forking on UTF-8 length classes if needed).
func (e *Exec) strBytes(s *Str) []*term.T {
	if s.Opaque {
		e.unsupported("bytes of opaque string %s", s.Tag)
	}
	if !s.Runes {
		return s.B
	}
	c := e.C
	var out []*term.T
	for _, r := range s.R {
		r = e.validRune(r)
		ex := func(hi, lo int) *term.T { return c.Extract(r, hi, lo) }
		or := func(k uint64, t *term.T) *term.T { return c.Bin(term.OpOr, c.BVConst(8, k), c.ZExt(t, 8)) }
		switch {
		case e.Branch(c.Cmp(term.OpULt, r, c.BVConst(32, 0x80)), "utf8.1"):
			out = append(out, ex(7, 0))
		case e.Branch(c.Cmp(term.OpULt, r, c.BVConst(32, 0x800)), "utf8.2"):
			out = append(out, or(0xC0, ex(10, 6)), or(0x80, ex(5, 0)))
		case e.Branch(c.Cmp(term.OpULt, r, c.BVConst(32, 0x10000)), "utf8.3"):
			out = append(out, or(0xE0, ex(15, 12)), or(0x80, ex(11, 6)), or(0x80, ex(5, 0)))
		default:
			out = append(out, or(0xF0, ex(20, 18)), or(0x80, ex(17, 12)), or(0x80, ex(11, 6)), or(0x80, ex(5, 0)))
		}
	}
	// cache the byte form
	s.B = out
	s.Runes = false
	s.R = nil
	return out
}

// strRunes decodes UTF-8 (forking on lead-byte classes when bytes are symbolic).
func (e *Exec) strRunes(s *Str) []*term.T {
	if s.Opaque {
		e.unsupported("runes of opaque string %s", s.Tag)
	}
	if s.Runes {
		out := make([]*term.T, len(s.R))
		for i, r := range s.R {
			out[i] = e.validRune(r)
		}
		return out
	}
	c := e.C
	b := s.B
	var out []*term.T
	z32 := func(t *term.T) *term.T { return c.ZExt(t, 32) }
	lt := func(t *term.T, k uint64) *term.T { return c.Cmp(term.OpULt, t, c.BVConst(8, k)) }
	isCont := func(t *term.T) *term.T {
		return c.Eq(c.Bin(term.OpAnd, t, c.BVConst(8, 0xC0)), c.BVConst(8, 0x80))
	}
	fffd := c.BVConst(32, 0xFFFD)
	i := 0
	for i < len(b) {
		b0 := b[i]
		if e.Branch(lt(b0, 0x80), "utf8d.ascii") {
			out = append(out, z32(b0))
			i++
			continue
		}
		// multi-byte: decide the length class, then validity, concretely per class
		low := func(t *term.T, m uint64) *term.T { return z32(c.Bin(term.OpAnd, t, c.BVConst(8, m))) }
		shl := func(t *term.T, k uint64) *term.T { return c.Bin(term.OpShl, t, c.BVConst(32, k)) }
		or3 := func(ts ...*term.T) *term.T {
			r := ts[0]
			for _, t := range ts[1:] {
				r = c.Bin(term.OpOr, r, t)
			}
			return r
		}
		switch {
		case e.Branch(lt(b0, 0xC2), "utf8d.bad"):
			out = append(out, fffd)
			i++
		case e.Branch(lt(b0, 0xE0), "utf8d.2"):
			if i+1 < len(b) && e.Branch(isCont(b[i+1]), "utf8d.2c") {
				out = append(out, or3(shl(low(b0, 0x1F), 6), low(b[i+1], 0x3F)))
				i += 2
			} else {
				out = append(out, fffd)
				i++
			}
		case e.Branch(lt(b0, 0xF0), "utf8d.3"):
			ok := i+2 < len(b) && e.Branch(c.BAnd(isCont(b[i+1]), isCont(b[i+2])), "utf8d.3c")
			if ok {
				r := or3(shl(low(b0, 0x0F), 12), shl(low(b[i+1], 0x3F), 6), low(b[i+2], 0x3F))
				// overlong and surrogates are invalid
				good := c.BAnd(c.Cmp(term.OpULe, c.BVConst(32, 0x800), r),
					c.BNot(c.BAnd(c.Cmp(term.OpULe, c.BVConst(32, 0xD800), r), c.Cmp(term.OpULe, r, c.BVConst(32, 0xDFFF)))))
				if e.Branch(good, "utf8d.3v") {
					out = append(out, r)
					i += 3
					continue
				}
			}
			out = append(out, fffd)
			i++
		case e.Branch(lt(b0, 0xF5), "utf8d.4"):
			ok := i+3 < len(b) && e.Branch(c.BAnd(isCont(b[i+1]), c.BAnd(isCont(b[i+2]), isCont(b[i+3]))), "utf8d.4c")
			if ok {
				r := or3(shl(low(b0, 0x07), 18), shl(low(b[i+1], 0x3F), 12), shl(low(b[i+2], 0x3F), 6), low(b[i+3], 0x3F))
				good := c.BAnd(c.Cmp(term.OpULe, c.BVConst(32, 0x10000), r), c.Cmp(term.OpULe, r, c.BVConst(32, 0x10FFFF)))
				if e.Branch(good, "utf8d.4v") {
					out = append(out, r)
					i += 4
					continue
				}
			}
			out = append(out, fffd)
			i++
		default:
			out = append(out, fffd)
			i++
		}
	}
	return out
}

func (e *Exec) strEq(a, b *Str) *term.T {
	c := e.C
	if a.Opaque || b.Opaque {
		if a == b {
			return c.True
		}
		e.unsupported("comparison of opaque strings")
	}
	if a.Runes && b.Runes {
		if len(a.R) != len(b.R) {
			// different rune counts can still be equal byte strings only if
			// counts match; rune count is determined by the bytes
			return c.False
		}
		r := c.True
		for i := range a.R {
			r = c.BAnd(r, c.Eq(e.validRune(a.R[i]), e.validRune(b.R[i])))
		}
		return r
	}
	ab, bb := e.strBytes(a), e.strBytes(b)
	if len(ab) != len(bb) {
		return c.False
	}
	r := c.True
	for i := range ab {
		r = c.BAnd(r, c.Eq(ab[i], bb[i]))
	}
	return r
}

func (e *Exec) strBinop(op token.Token, a, b *Str) Value {
	c := e.C
	switch op {
	case token.ADD:
		if a.Opaque || b.Opaque {
			return &Str{Opaque: true, Tag: a.Tag + b.Tag}
		}
		if a.Runes && b.Runes {
			return &Str{R: append(append([]*term.T{}, a.R...), b.R...), Runes: true}
		}
		ab, bb := e.strBytes(a), e.strBytes(b)
		return &Str{B: append(append([]*term.T{}, ab...), bb...)}
	case token.EQL:
		return e.strEq(a, b)
	case token.NEQ:
		return c.BNot(e.strEq(a, b))
	case token.LSS, token.LEQ, token.GTR, token.GEQ:
		as, ok1 := e.concreteStr(a)
		bs, ok2 := e.concreteStr(b)
		if ok1 && ok2 {
			var r bool
			switch op {
			case token.LSS:
				r = as < bs
			case token.LEQ:
				r = as <= bs
			case token.GTR:
				r = as > bs
			case token.GEQ:
				r = as >= bs
			}
			return c.BoolConst(r)
		}
	}
	e.unsupported("string op %v", op)
	return nil
}
