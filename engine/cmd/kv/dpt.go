package main

import (
	"fmt"
	"go/types"
	"os"
	"sort"
	"strings"

	"kv/exec"
	"kv/smt"
)

// dptNames executes the registry initialiser of the current source in the
// engine and returns the registered (main, sub) numbers.
func dptNames(l *loaded) [][2]int64 {
	fn, err := l.harness("dpt", "HarnessDptList")
	if err != nil {
		fmt.Fprintln(os.Stderr, err)
		return nil
	}
	s, err := smt.Start("z3", 10000)
	if err != nil {
		return nil
	}
	defer s.Close()
	e := exec.New(l.World, s, exec.Config{Unwind: 5000})
	out := e.RunPath(fn, nil, nil)
	var res [][2]int64
	for _, o := range out.Obs {
		if strings.HasPrefix(o, "name=") {
			var m, sub int64
			if _, err := fmt.Sscanf(o[5:], "%d.%d", &m, &sub); err == nil {
				res = append(res, [2]int64{m, sub})
			}
		}
	}
	if len(res) == 0 {
		fmt.Fprintln(os.Stderr, "dptNames: registry listing failed:", out.Kind, out.Detail, out.Site)
	}
	return res
}

// c19Completeness: every exported DPT_* type of the package that implements
// Datapoint (through its pointer) must be the dynamic type of some registry entry.
func c19Completeness(l *loaded) ([]string, int) {
	p := l.World.Pkgs[modPath+"/knx/dpt"]
	if p == nil {
		return []string{"package dpt not loaded"}, 0
	}
	fn, err := l.harness("dpt", "HarnessC19Types")
	if err != nil {
		return []string{err.Error()}, 0
	}
	s, err := smt.Start("z3", 10000)
	if err != nil {
		return []string{err.Error()}, 0
	}
	defer s.Close()
	e := exec.New(l.World, s, exec.Config{Unwind: 5000})
	out := e.RunPath(fn, nil, nil)
	if out.Kind != "ok" {
		if out.Kind == "panic" || out.Kind == "assert" {
			return []string{"registry listing failed: " + out.Kind + " " + out.Detail}, 0
		}
		// the engine could not execute the registry code of this tree: that decides nothing
		return []string{"INCONCLUSIVE: registry listing could not be executed: " + out.Kind + " " + out.Detail}, 0
	}
	inReg := map[string]string{}
	for _, o := range out.Obs {
		if strings.HasPrefix(o, "type=") {
			f := strings.Fields(o[5:])
			if len(f) == 2 {
				inReg[f[1]] = f[0]
			}
		}
	}
	dp := p.Pkg.Scope().Lookup("Datapoint")
	if dp == nil {
		return []string{"interface Datapoint not found"}, 0
	}
	iface := dp.Type().Underlying().(*types.Interface)
	var missing []string
	n := 0
	names := p.Pkg.Scope().Names()
	sort.Strings(names)
	for _, name := range names {
		if !strings.HasPrefix(name, "DPT_") {
			continue
		}
		tn, ok := p.Pkg.Scope().Lookup(name).(*types.TypeName)
		if !ok || !tn.Exported() {
			continue
		}
		if !types.Implements(types.NewPointer(tn.Type()), iface) {
			continue
		}
		n++
		if _, ok := inReg["*dpt."+name]; !ok {
			missing = append(missing, "exported datapoint type "+name+" is not reachable through the registry")
		}
	}
	return missing, n
}
